"""API table of the term evaluator: semantics of numpy / astropy / dask / scipy / builtins
as term constructors.  This table is the analyser's stated knowledge of third-party
behaviour; a callable that is not listed makes the dependent obligation inconclusive."""
from __future__ import annotations

import ast
import sympy as sp

from .values import (Val, Num, StrV, NoneV, NONE, BoolV, CondV, TupleV, ListV, DictV, SetV, SliceV, ObjV, PyFuncV,
                     ClassV, FuncV, ExtV, BoundBuiltin, OpaqueV, SigParamV, SignatureV, Unsupported, DispatchV,
                     DimensionError, UNITS, UNIT_SYMS, F, NONE_S, mk_ite)
from .model import ClassInfo, FunctionInfo, ModuleInfo, norm

def is_bool_expr(e):
    """sympy Symbols inherit from Boolean; only genuine Boolean terms count."""
    return isinstance(e, (sp.logic.boolalg.BooleanFunction, sp.logic.boolalg.BooleanAtom,
                          sp.core.relational.Relational)) and not getattr(e, "is_Symbol", False)


BUILTINS = {
    "len", "int", "float", "bool", "str", "complex", "abs", "round", "min", "max", "sum", "any", "all",
    "isinstance", "issubclass", "hasattr", "getattr", "setattr", "type", "range", "slice", "tuple", "list",
    "dict", "set", "zip", "enumerate", "sorted", "reversed", "super", "id", "hex", "repr", "format", "print",
    "ValueError", "TypeError", "IndexError", "KeyError", "AttributeError", "Exception", "AssertionError",
    "EOFError", "NotImplemented", "NotImplementedError", "property", "object", "iter", "next", "map",
    "open", "divmod", "pow", "callable", "frozenset", "RuntimeError", "OSError", "ImportError", "StopIteration",
}

NUMERIC_DTYPES = {"float32", "float64", "complex64", "complex128", "int64", "int32", "bool_", "uint8", "int8", "int16", "uint16", "uint32", "uint64", "float16"}


class NdArr(Val):
    """Small explicit array: concrete integer shape, flat list of element values (C order)."""
    def __init__(self, shape, items, kind="array"):
        self.shape = tuple(int(s) for s in shape)
        self.items = list(items)
        self.kind = kind
        n = 1
        for s in self.shape:
            n *= s
        assert n == len(self.items), (shape, len(items))

    @property
    def ndim(self):
        return len(self.shape)

    def map(self, f):
        out = NdArr(self.shape, [f(x) for x in self.items], self.kind)
        out.dtype = getattr(self, "dtype", None)
        return out

    def __repr__(self):
        return f"NdArr{self.shape}{self.items}"

    def index_iter(self):
        import itertools
        return itertools.product(*[range(s) for s in self.shape])


# ----------------------------------------------------------------------------- constants
def constant(ev, dotted):
    parts = dotted.split(".")
    if dotted in ("numpy.pi", "math.pi"):
        return Num(sp.pi)
    if dotted in ("numpy.newaxis",):
        return NONE
    if dotted in ("numpy.inf", "math.inf"):
        return Num(sp.oo)
    if dotted == "builtins.NotImplemented":
        return ExtV(dotted)
    if parts[0] == "astropy" and len(parts) >= 3 and parts[1] == "units" and parts[-1] in UNITS and len(parts) == 3:
        ue = UNITS[parts[-1]]
        return Num(ue, kind="quantity", unit=ue, tag="unit")
    if dotted == "astropy.utils.compat.COPY_IF_NEEDED":
        return NONE
    if dotted in ("inspect._empty", "inspect.Signature.empty"):
        return ExtV("inspect.Parameter.empty")
    if dotted.startswith("inspect._ParameterKind."):
        return ExtV("inspect.Parameter." + dotted.rsplit(".", 1)[1])
    return ExtV(dotted)


NP_KIND = {"float16": "f", "float32": "f", "float64": "f", "complex64": "c", "complex128": "c", "int8": "i", "int16": "i", "int32": "i",
           "int64": "i", "uint8": "u", "bool_": "b", "str_": "U"}


def ext_getattr(ev, obj: ExtV, name, fr, node):
    d = obj.dotted
    if d.startswith("numpy.") and d.endswith(":swapped") and d[6:-8] in NP_KIND:
        # a dtype of non-native byte order: same kind/name/scalar type as the native one, but not equal to it
        base = ExtV(d[:-8])
        if name in ("kind", "name", "itemsize", "type"):
            return ext_getattr(ev, base, name, fr, node)
        if name == "dtype":
            return obj
        if name == "isnative":
            return BoolV(False)
        if name == "byteorder":
            return StrV(">")
        if name == "newbyteorder":
            return BoundBuiltin(obj, name)
    if d.startswith("numpy.") and d[6:] in NP_KIND and name in ("isnative",):
        return BoolV(True)
    if d.startswith("numpy.") and d[6:] in NP_KIND and name in ("kind", "name", "itemsize", "type", "dtype"):
        if name == "kind":
            return StrV(NP_KIND[d[6:]])
        if name == "name":
            return StrV(d[6:])
        if name in ("type", "dtype"):
            return obj
        import numpy as _np
        return Num(int(_np.dtype(getattr(_np, d[6:])).itemsize))
    if d.startswith("ufunc:"):
        if name in ("__call__",):
            return obj
        if name in ("reduce", "accumulate", "outer", "at", "reduceat"):
            return ExtV(d + ":" + name)
        if name == "nout":
            return Num(int(d.split(":")[3]))
        if name == "nin":
            return Num(int(d.split(":")[2]))
        if name == "__name__":
            return StrV(d.split(":")[1])
    if d.startswith("pulsarbat"):
        tgt = ev.prog.lookup(d + "." + name)
        if tgt is not None:
            return ev.resolve_dotted(d + "." + name)
        if d == "pulsarbat.fft":
            names = fft_names(ev.prog)
            if name in names:
                return ExtV("pulsarbat.fft." + name)
            from .symeval import Raised
            raise Raised("AttributeError", node, f"pulsarbat.fft has no {name}")
        if (d + "." + name) in ev.prog.modules:
            return ExtV(d + "." + name)
        from .symeval import Raised
        raise Raised("AttributeError", node, f"{d} has no attribute {name}")
    if name in ("__qualname__", "__name__", "__doc__"):
        return StrV(d.rsplit(".", 1)[-1])
    if d == "builtins.super_obj":
        return obj
    return constant(ev, d + "." + name)


def fft_names(prog):
    mi = prog.modules.get("pulsarbat.fft")
    if mi is None or "_FFT_FUNCS" not in mi.assigns:
        raise Unsupported("pulsarbat.fft._FFT_FUNCS not found")
    try:
        return list(ast.literal_eval(mi.assigns["_FFT_FUNCS"]))
    except Exception:
        raise Unsupported("pulsarbat.fft._FFT_FUNCS is not a literal list")


# ------------------------------------------------------------------------- dimension check
def dim_of(e):
    """Dimension vector {unit symbol: exponent} of a term by structural recursion; None if the
    structure does not determine it (e.g. a sum of terms of different dimension)."""
    if e.is_Symbol:
        return {e: sp.Integer(1)} if e in UNIT_SYMS else {}
    if e.is_number or not e.free_symbols & UNIT_SYMS:
        return {}
    if e.is_Mul:
        out = {}
        for a in e.args:
            d = dim_of(a)
            if d is None:
                return None
            for k, v in d.items():
                out[k] = out.get(k, 0) + v
        return {k: v for k, v in out.items() if v != 0}
    if e.is_Pow:
        b, x = e.args
        d = dim_of(b)
        if d is None:
            return None
        if not d:
            return {}
        if x.free_symbols & UNIT_SYMS:
            return None
        return {k: v * x for k, v in d.items()}
    if e.is_Add:
        ds = [dim_of(a) for a in e.args]
        if any(d is None for d in ds):
            return None
        first = ds[0]
        for d in ds[1:]:
            if d != first:
                return None
        return first
    if isinstance(e, sp.Piecewise):
        ds = [dim_of(a) for a, _ in e.args]
        if any(d is None for d in ds) or any(d != ds[0] for d in ds):
            return None
        return ds[0]
    if e.func in (sp.Min, sp.Max, sp.Abs, sp.re, sp.im, sp.conjugate, sp.floor, sp.ceiling) and e.args:
        ds = [dim_of(a) for a in e.args]
        if any(d is None for d in ds) or any(d != ds[0] for d in ds):
            return None
        return ds[0]
    if isinstance(e, sp.core.function.AppliedUndef) and e.func.__name__ in ("Idx", "Take", "FFT", "IFFT"):
        return dim_of(e.args[0])
    return None


def dimension_check(ev, expr, unit_expr, what, node):
    ev.dim_checks += 1
    if sp.sympify(expr) == 0 or sp.sympify(expr) is sp.nan:
        return None       # zero / NaN quantities carry no unit in the term algebra
    de, du = dim_of(sp.sympify(expr)), dim_of(sp.sympify(unit_expr))
    if de is not None and du is not None:
        if de == du:
            return None
        ev.trace.append(("dimension", what, str(de), str(du)))
        raise DimensionError(f"{what}: quantity of dimension {de or 'dimensionless'} is not convertible to unit "
                             f"{unit_expr} of dimension {du or 'dimensionless'}")
    try:
        ratio = sp.simplify(expr / unit_expr)
    except Exception:
        ratio = expr / unit_expr
    bad = ratio.free_symbols & UNIT_SYMS
    if bad:
        r2 = sp.powsimp(sp.cancel(sp.expand_power_base(ratio, force=True)), force=True)
        bad = r2.free_symbols & UNIT_SYMS
        if bad:
            ev.trace.append(("dimension", what, str(ratio)))
            raise DimensionError(f"{what}: quantity {expr} is not convertible to unit {unit_expr} (leftover {sorted(map(str, bad))})")
    return ratio


def unit_of(ev, v, node):
    """Unit expression from a unit-valued argument (u.Hz, u.one, u.cycle / u.s ...)."""
    if isinstance(v, Num):
        return v.expr
    if isinstance(v, StrV) and v.s in UNITS:
        return UNITS[v.s]
    raise Unsupported(f"unit argument {v!r}")


# ----------------------------------------------------------------------------- arithmetic
def _kind(op, a, b):
    ka, kb = a.kind, b.kind
    if isinstance(op, (ast.Add, ast.Sub)):
        if ka == "time" and kb == "time":
            return "quantity" if isinstance(op, ast.Sub) else "time"
        if "time" in (ka, kb):
            return "time"
    if "quantity" in (ka, kb) or "time" in (ka, kb):
        return "quantity"
    if "array" in (ka, kb):
        return "array"
    if ka == "bool" and kb == "bool":
        return "bool"
    return "number"


def broadcast(ev, a: Num, b: Num):
    """-> (b_expr_unified, shape, axes)."""
    if a.shape is None or len(a.shape) == 0:
        return b.expr, b.shape, b.axes
    if b.shape is None or len(b.shape) == 0:
        return b.expr, a.shape, a.axes
    sa, sb = list(a.shape), list(b.shape)
    xa, xb = list(a.axes), list(b.axes)
    n = max(len(sa), len(sb))
    sa = [sp.Integer(1)] * (n - len(sa)) + sa
    sb = [sp.Integer(1)] * (n - len(sb)) + sb
    xa = [None] * (n - len(xa)) + xa
    xb = [None] * (n - len(xb)) + xb
    bexpr = b.expr
    shape, axes = [], []
    for da, db, ia, ib in zip(sa, sb, xa, xb):
        if da != 1 and db != 1 and da != db:
            try:
                differs = sp.simplify(da - db) != 0
            except Exception:
                differs = True
            if differs:
                ev.trace.append(("broadcast-mismatch", str(a.shape), str(b.shape)))
        if da == 1 and db != 1:
            shape.append(db)
            axes.append(ib)
        else:
            shape.append(da)
            if ia is not None and ib is not None and ia != ib:
                bexpr = bexpr.subs(ib, ia)
            axes.append(ia if ia is not None else ib)
    return bexpr, tuple(shape), tuple(axes)


def _unit_mul(a, b, div=False):
    ua, ub = a.unit, b.unit
    plain_a = a.kind in ("number", "array", "bool")
    plain_b = b.kind in ("number", "array", "bool")
    if ua is not None and ub is not None:
        return ua / ub if div else ua * ub
    if ua is not None and plain_b:
        return ua
    if ub is not None and plain_a:
        return 1 / ub if div else ub
    return None


def binop(ev, op, a, b, node, fr):
    from .symeval import PhiV, Raised
    if isinstance(a, PhiV):
        return ev.ite(a.cond, binop(ev, op, a.a, b, node, fr), binop(ev, op, a.b, b, node, fr))
    if isinstance(b, PhiV):
        return ev.ite(b.cond, binop(ev, op, a, b.a, node, fr), binop(ev, op, a, b.b, node, fr))
    if isinstance(a, ObjV) or isinstance(b, ObjV):
        o = a if isinstance(a, ObjV) else b
        m = o.cls.find_method("__array_ufunc__")
        opname = {ast.Add: "add", ast.Sub: "subtract", ast.Mult: "multiply", ast.Div: "divide", ast.FloorDiv: "floor_divide",
                  ast.Mod: "remainder"}.get(type(op))
        if m is not None and opname is not None:
            return ev.call(m, [ExtV(f"ufunc:{opname}:2:1"), StrV("__call__"), a, b], {}, self_val=o, depth=(fr.depth + 1 if fr is not None else 1))
    if isinstance(a, BoolV) and isinstance(b, BoolV) and isinstance(op, (ast.BitAnd, ast.BitOr, ast.BitXor)):
        r_ = BoolV({ast.BitAnd: a.b and b.b, ast.BitOr: a.b or b.b, ast.BitXor: a.b != b.b}[type(op)])
        if getattr(a, "np", False) or getattr(b, "np", False):
            r_.np = True          # numpy.bool_ & bool, numpy.bool_ ^ bool, ... are numpy.bool_ (not the Python singletons True / False)
        return r_
    if isinstance(a, BoolV):
        a = Num(int(a.b))
    if isinstance(b, BoolV):
        b = Num(int(b.b))
    # sequences
    if isinstance(a, (TupleV, ListV)) and isinstance(b, (TupleV, ListV)) and isinstance(op, ast.Add):
        return type(a)(a.items + b.items)
    if isinstance(a, (TupleV, ListV)) and isinstance(b, Num) and isinstance(op, ast.Mult) or \
            isinstance(b, (TupleV, ListV)) and isinstance(a, Num) and isinstance(op, ast.Mult):
        seq, k = (a, b) if isinstance(a, (TupleV, ListV)) else (b, a)
        n = ev.concrete_int(k)
        if n is None:
            ev.unsupported("sequence repetition by a symbolic count", node, fr)
        return type(seq)(seq.items * max(n, 0))
    if isinstance(a, StrV) and isinstance(b, StrV) and isinstance(op, ast.Add):
        return StrV(a.s + b.s)
    if isinstance(op, ast.Add) and (isinstance(a, StrV) and isinstance(b, Num) and b.tag == "token"
                                    or isinstance(b, StrV) and isinstance(a, Num) and a.tag == "token"):
        return b if isinstance(a, StrV) else a
    if isinstance(a, StrV) and isinstance(op, ast.Mod):
        return StrV("<fmt>")
    if isinstance(a, StrV) and isinstance(b, Num) and isinstance(op, ast.Mult):
        n = ev.concrete_int(b)
        return StrV(a.s * (n if n is not None else 1))
    if isinstance(a, CondV) and isinstance(b, CondV) and isinstance(op, (ast.BitAnd, ast.BitOr)):
        return CondV(sp.And(a.expr, b.expr) if isinstance(op, ast.BitAnd) else sp.Or(a.expr, b.expr))
    if isinstance(a, (CondV, Num)) and isinstance(b, (CondV, Num)) and isinstance(op, (ast.BitAnd, ast.BitOr, ast.BitXor)):
        ea = a.expr if isinstance(a, CondV) or a.kind == "bool" else sp.Ne(a.expr, 0)
        eb = b.expr if isinstance(b, CondV) or b.kind == "bool" else sp.Ne(b.expr, 0)
        fn = {ast.BitAnd: sp.And, ast.BitOr: sp.Or, ast.BitXor: sp.Xor}[type(op)]
        shape = getattr(a, "shape", None) or getattr(b, "shape", None)
        return Num(fn(ea, eb), kind="bool", shape=shape)
    if isinstance(op, ast.MatMult):
        return matmul(ev, a, b, node, fr)
    if isinstance(a, NdArr) or isinstance(b, NdArr):
        return nd_binop(ev, op, a, b, node, fr)
    if isinstance(a, StackV) or isinstance(b, StackV):
        return stack_binop(ev, op, a, b, node, fr)
    if isinstance(a, DictV) and isinstance(b, DictV) and isinstance(op, ast.BitOr):
        d = DictV(a.d)
        d.d.update(b.d)
        return d
    if isinstance(a, PolyV) and isinstance(b, Num) and not b.shape and not isinstance(a, DerivedPoly) \
            and isinstance(op, (ast.Add, ast.Sub, ast.Mult, ast.Div)):
        # polynomial and a scalar: the constant term moves / every coefficient scales, in whatever basis the polynomial is held
        cs = list(a.coeffs)
        if isinstance(op, ast.Add):
            cs[0] = cs[0] + b.expr
        elif isinstance(op, ast.Sub):
            cs[0] = cs[0] - b.expr
        elif isinstance(op, ast.Mult):
            cs = [c * b.expr for c in cs]
        else:
            cs = [c / b.expr for c in cs]
        return PolyV(cs, a.domain, a.window)
    if isinstance(b, PolyV) and isinstance(a, Num) and not a.shape and not isinstance(b, DerivedPoly) and isinstance(op, (ast.Add, ast.Mult)):
        return binop(ev, op, b, a, node, fr)
    if not (isinstance(a, Num) and isinstance(b, Num)):
        if isinstance(a, NoneV) or isinstance(b, NoneV):
            raise Raised("TypeError", node, "arithmetic with None")
        ev.unsupported(f"binary operation between {a!r} and {b!r}", node, fr)
    if isinstance(op, ast.Sub) and b.kind == "time" and a.kind != "time":
        raise Raised("TypeError", node, "number/Quantity minus Time is not defined")
    if isinstance(op, (ast.Mult, ast.Div)) and (a.kind == "time" or b.kind == "time"):
        raise Raised("TypeError", node, "a Time cannot be multiplied or divided")
    bexpr, shape, axes = broadcast(ev, a, b)
    x, y = a.expr, bexpr
    kind = _kind(op, a, b)
    unit = None
    keep = getattr(ev, "grouping", False)     # keep the source's association (floating-point grouping matters)
    if isinstance(op, ast.Add):
        r = sp.Add(x, y, evaluate=False) if keep else x + y
        unit = a.unit
    elif isinstance(op, ast.Sub):
        r = sp.Add(x, sp.Mul(-1, y, evaluate=False), evaluate=False) if keep else x - y
        unit = a.unit
    elif isinstance(op, ast.Mult):
        r = sp.Mul(x, y, evaluate=False) if keep else x * y
        unit = _unit_mul(a, b)
    elif isinstance(op, ast.Div):
        if y == 0:
            raise Raised("ZeroDivisionError", node)
        r = sp.Mul(x, sp.Pow(y, -1, evaluate=False), evaluate=False) if keep else x / y
        unit = _unit_mul(a, b, div=True)
    elif isinstance(op, ast.FloorDiv):
        r = sp.floor(x / y)
        # (n - n % p) // p divides exactly
        m_ = sp.expand(-x)
        mods = [t for t in sp.Add.make_args(m_) if isinstance(t, sp.Mod) and t.args[1] == y]
        if len(mods) == 1 and sp.expand(x + mods[0]) == mods[0].args[0] and getattr(y, "is_integer", False) and getattr(mods[0].args[0], "is_integer", False):
            r = x / y
        kind = "number" if kind == "quantity" else kind
    elif isinstance(op, ast.Mod):
        r = sp.Mod(x, y)
    elif isinstance(op, ast.Pow):
        r = x ** y
        if a.unit is not None and y.is_number:
            unit = a.unit ** y
        if getattr(ev, "float_fold", False) and kind == "number" and not shape and x.is_Rational and y.is_Integer and y < 0 and sp.sympify(r).is_Rational:
            # int ** negative int is a float in Python: 10 ** -4 is the DOUBLE nearest to 1/10000
            r = round_to_double(sp.sympify(r))
            a = a.like(a.expr, isfloat=True) if hasattr(a, "like") else a
    elif isinstance(op, ast.LShift):
        # Quantity creation / conversion  value << unit
        if a.kind == "quantity" and a.tag != "unit" and b.tag == "unit":
            dimension_check(ev, a.expr, b.expr, f"<< {b.expr}", node)
            if a.unit is None or a.unit == b.expr:
                # astropy returns the very same Quantity when it is already in that unit (which, for a caller-supplied
                # value of unknown representation, is one of the legitimate inputs): later in-place operators reach it
                return a
            return a.like(a.expr, unit=b.expr, kind="quantity", cls=a.cls)
        r = x * y
        unit = b.expr
        kind = "quantity"
    elif isinstance(op, ast.RShift):
        if x.is_integer and y.is_integer:
            r = sp.floor(x / 2 ** y)
        else:
            ev.unsupported(">> on non-integers", node, fr)
    elif isinstance(op, ast.BitAnd):
        if y == 1:
            r = sp.Mod(x, 2)
        else:
            ev.unsupported("bitwise and", node, fr)
    elif isinstance(op, ast.MatMult):
        ev.unsupported("matmul", node, fr)
    else:
        ev.unsupported(f"operator {type(op).__name__}", node, fr)
    tag = "unit" if (a.tag == "unit" and b.tag == "unit" and isinstance(op, (ast.Mult, ast.Div))) or \
        (a.tag == "unit" and isinstance(op, ast.Pow)) else None
    if tag == "unit":
        unit = r
    # the sign of a floating-point zero survives multiplication / division by a positive quantity (-0.0 * dt is -0.0)
    if tag is None and isinstance(op, (ast.Mult, ast.Div)) and (a.tag == "negzero") != (b.tag == "negzero"):
        other_ = b if a.tag == "negzero" else a
        o_ = sp.sympify(other_.expr)
        coeff_ = o_.as_coeff_Mul()[0] if (o_.free_symbols & UNIT_SYMS) else o_
        rest_pos = all(getattr(s_, "is_positive", False) or s_ in UNIT_SYMS for s_ in o_.free_symbols)
        if (coeff_.is_positive or (coeff_ == 1)) and rest_pos and not (isinstance(op, ast.Div) and b.tag == "negzero"):
            tag = "negzero"
    if getattr(ev, "float_fold", False) and isinstance(op, (ast.Add, ast.Sub, ast.Mult, ast.Div)) and (a.isfloat or b.isfloat) \
            and kind == "number" and not shape and x.is_Rational and y.is_Rational and sp.sympify(r).is_Rational:
        # both operands are concrete doubles: fold with IEEE semantics (the exact result rounded to nearest-even double)
        r = round_to_double(sp.sympify(r))
    elif getattr(ev, "float_fold", False) and isinstance(op, (ast.Add, ast.Sub, ast.Mult, ast.Div)) and (a.isfloat or b.isfloat) and tag != "unit":
        # concrete doubles carrying units (or a uniform array of them): value (op) value is one rounded double operation, the units
        # combine symbolically.  Only when every unit involved is a power of the coherent base unit, so that no scale factor enters.
        def split(e_):
            c_, rest = sp.sympify(e_).as_coeff_Mul()
            return (c_, rest) if c_.is_Rational and (rest.free_symbols <= UNIT_SYMS) else (None, None)
        cx, _ = split(x)
        cy, _ = split(y)
        cr, rest = split(r)
        if cx is not None and cy is not None and cr is not None and (cx != 1 or not a.tag == "unit") and is_double(cx) and is_double(cy):
            r = round_to_double(cr) * rest
            if tag == "unit":
                unit = r
    dt_out = a.dtype or b.dtype
    if isinstance(a.dtype, ExtV) and isinstance(b.dtype, ExtV) and a.dtype.dotted != b.dtype.dotted and a.shape and b.shape \
            and _dtype_name(a.dtype) in NP_DTYPES and _dtype_name(b.dtype) in NP_DTYPES and not isinstance(op, (ast.Div, ast.FloorDiv, ast.Mod, ast.Pow)):
        dt_out = promote_dtype(a.dtype, b.dtype)       # two typed arrays: NumPy's promotion (float32 + complex128 -> complex128)
    out = Num(r, kind=kind, shape=shape, axes=axes, unit=unit, tag=tag,
              backend=a.backend or b.backend, dtype=dt_out,
              isfloat=a.isfloat or b.isfloat or isinstance(op, ast.Div) or kind in ("quantity", "time"))
    return out


def round_to_double(q):
    """The double nearest to the rational q (ties to even), as an exact rational.  Fraction -> float is correctly rounded."""
    from fractions import Fraction
    fr_ = Fraction(int(q.p), int(q.q))
    try:
        f = float(fr_)
    except OverflowError:
        return q
    g = Fraction(f)
    return sp.Rational(g.numerator, g.denominator)


def is_double(q):
    from fractions import Fraction
    try:
        fr_ = Fraction(int(q.p), int(q.q))
        return Fraction(float(fr_)) == fr_
    except Exception:
        return False


def nd_materialize(x):
    """A Num array of concrete shape whose elements are a function of per-axis index symbols -> explicit NdArr
    (None when the shape is not concrete or an axis longer than 1 has no index symbol, i.e. elements are not enumerable)."""
    if not isinstance(x, Num) or not x.shape or x.tag == "data":
        return None
    try:
        shp = [int(s_) for s_ in x.shape]
    except Exception:
        return None
    axes = x.axes or (None,) * len(shp)
    n = 1
    for s_ in shp:
        n *= s_
    if n > 4096:
        return None
    free = x.expr.free_symbols
    for s_, ax in zip(shp, axes):
        if s_ > 1 and ax is None:
            return None
    import itertools
    items = []
    for combo in itertools.product(*[range(s_) for s_ in shp]):
        sub = {ax: c for ax, c in zip(axes, combo) if ax is not None and ax in free}
        items.append(Num(x.expr.subs(sub) if sub else x.expr, kind="number" if x.kind == "array" else x.kind, unit=x.unit, isfloat=x.isfloat))
    out = NdArr(shp, items)
    out.dtype = x.dtype
    return out


def nd_broadcast(ev, op, a: NdArr, b: NdArr, node, fr):
    import itertools
    nd = max(a.ndim, b.ndim)
    sa = (1,) * (nd - a.ndim) + a.shape
    sb = (1,) * (nd - b.ndim) + b.shape
    shape = []
    for x, y in zip(sa, sb):
        if x == y or y == 1:
            shape.append(x)
        elif x == 1:
            shape.append(y)
        else:
            ev.trace.append(("broadcast-mismatch", sa, sb, node))
            raise_value_error(ev, f"operands could not be broadcast together with shapes {a.shape} {b.shape}", node, fr)

    def strides(sh):
        st, acc = [], 1
        for s_ in reversed(sh):
            st.insert(0, 0 if s_ == 1 else acc)
            acc *= s_
        return st
    sta, stb = strides(sa), strides(sb)
    items = []
    for combo in itertools.product(*[range(s_) for s_ in shape]):
        ia = sum(c * t for c, t in zip(combo, sta))
        ib = sum(c * t for c, t in zip(combo, stb))
        items.append(binop(ev, op, a.items[ia], b.items[ib], node, fr))
    out = NdArr(shape, items)
    da_, db_ = getattr(a, "dtype", None), getattr(b, "dtype", None)
    out.dtype = promote_dtype(da_, db_)
    return out


def promote_dtype(da_, db_):
    """numpy result dtype of an arithmetic op between two arrays (None = unknown)."""
    order = ["bool_", "int8", "uint8", "int16", "uint16", "int32", "uint32", "int64", "uint64", "float16", "float32", "float64", "complex64", "complex128"]
    _pair = {d.dotted[6:] for d in (da_, db_) if isinstance(d, ExtV) and d.dotted.startswith("numpy.")}
    if _pair == {"int64", "uint64"}:
        return ExtV("numpy.float64")          # no integer type holds both ranges

    def nm(d):
        return d.dotted[6:] if isinstance(d, ExtV) and d.dotted.startswith("numpy.") else None
    x, y = nm(da_), nm(db_)
    if x is None or y is None or x not in order or y not in order:
        return da_ or db_
    hi = max(x, y, key=order.index)
    lo = min(x, y, key=order.index)
    if hi == "complex64" and lo in ("float64", "int32", "int64"):
        hi = "complex128"
    if hi == "float32" and lo in ("int32", "int64"):
        hi = "float64"
    if hi == "float16" and lo in ("int16", "int32", "int64"):
        hi = "float64" if lo != "int16" else "float32"
    return ExtV("numpy." + hi)


def _ufunc_broadcast_shape(args):
    """Shape of an elementwise result: the operands' shapes broadcast against each other (right-aligned; 1 stretches).  Falls
    back to the first known shape when two symbolic extents cannot be compared."""
    shapes = [tuple(a.shape) for a in args if isinstance(a, Num) and a.shape]
    if not shapes:
        return None
    nd = max(len(s_) for s_ in shapes)
    out = []
    for k in range(1, nd + 1):
        dims = [sp.sympify(s_[-k]) for s_ in shapes if len(s_) >= k]
        d = dims[0]
        for e in dims[1:]:
            if d == 1:
                d = e
            elif e == 1 or sp.simplify(d - e) == 0:
                continue
            else:
                return shapes[0]       # not comparable (or a genuine mismatch NumPy would refuse): keep the first operand's shape
        out.append(d)
    return tuple(reversed(out))


_ARITH_UFUNCS = {"add": ast.Add(), "subtract": ast.Sub(), "multiply": ast.Mult(), "divide": ast.Div(), "true_divide": ast.Div()}
BOOL_UFUNCS = {"less", "less_equal", "greater", "greater_equal", "equal", "not_equal", "logical_and", "logical_or", "logical_not", "logical_xor",
               "isfinite", "isnan", "isinf", "signbit", "isnat"}


def ufunc_result_dtype(name, args, kwargs):
    """dtype of a ufunc output as NumPy 2 decides it: an explicit dtype= wins; predicates give bool; otherwise the promotion of
    the array operands' dtypes (Python scalars are weak and do not take part); |complex| is the matching float; true division of
    integers is float64.  None when an operand's dtype is not known."""
    dt = kwargs.get("dtype")
    if isinstance(dt, ExtV):
        return dt
    if name in BOOL_UFUNCS:
        return ExtV("numpy.bool_")
    strong = [a.dtype for a in args if isinstance(a, Num) and a.dtype is not None and (a.shape or a.kind not in ("number",) or a.tag == "data")]
    if not strong:
        return next((a.dtype for a in args if isinstance(a, Num) and a.dtype is not None), None)
    acc = strong[0]
    for d_ in strong[1:]:
        acc = promote_dtype(acc, d_)
    nm = acc.dotted[6:] if isinstance(acc, ExtV) and acc.dotted.startswith("numpy.") else None
    # weak Python scalars do not widen the precision but do decide the kind: real array (op) 1j is complex, int array (op) 0.5 is float
    weak = [a for a in args if isinstance(a, Num) and not (a.dtype is not None and (a.shape or a.kind not in ("number",) or a.tag == "data"))]
    if nm is not None and any(a.expr.has(sp.I) or a.expr.is_real is False for a in weak):
        if nm in ("float32", "float16"):
            acc, nm = ExtV("numpy.complex64"), "complex64"
        elif not nm.startswith("complex"):
            acc, nm = ExtV("numpy.complex128"), "complex128"
    elif nm is not None and nm.startswith(("int", "uint", "bool")) and any(a.isfloat or (a.expr.is_number and a.expr.is_integer is False) for a in weak):
        acc, nm = ExtV("numpy.float64"), "float64"
    if name in ("absolute", "fabs") and nm in ("complex64", "complex128"):
        return ExtV("numpy.float32" if nm == "complex64" else "numpy.float64")
    if name in ("divide", "true_divide") and nm is not None and nm.startswith(("int", "uint", "bool")):
        return ExtV("numpy.float64")
    return acc


def raise_value_error(ev, msg, node, fr):
    from .symeval import Raised
    raise Raised("ValueError", node, msg)


def _lin_comb(ev, comps, coefs, node, fr):
    acc = None
    for c, k in zip(comps, coefs):
        term = binop(ev, ast.Mult(), c, k, node, fr)
        acc = term if acc is None else binop(ev, ast.Add(), acc, term, node, fr)
    return acc


def matmul(ev, a, b, node, fr):
    """x @ M for x with explicit components along its LAST axis and an explicit matrix M; M @ M for explicit matrices."""
    if isinstance(a, StackV) and isinstance(b, NdArr) and b.ndim == 2:
        nd = len(a.shape) if a.shape is not None else None
        if nd is None or a.axis % nd != nd - 1:
            ev.unsupported("matmul of an array whose explicit components are not on its last axis", node, fr)
        if b.shape[0] != len(a.items):
            raise_value_error(ev, f"matmul: mismatch in core dimension ({len(a.items)} vs {b.shape[0]})", node, fr)
        cols = [[b.items[i * b.shape[1] + j] for i in range(b.shape[0])] for j in range(b.shape[1])]
        out = StackV([_lin_comb(ev, a.items, col, node, fr) for col in cols], a.axis, a.backend)
        out.shape = tuple(list(a.shape[:-1]) + [sp.Integer(b.shape[1])])
        out.dtype = a.dtype
        return out
    if isinstance(a, NdArr) and isinstance(b, NdArr) and a.ndim == 2 and b.ndim == 2 and a.shape[1] == b.shape[0]:
        items = []
        for i in range(a.shape[0]):
            for j in range(b.shape[1]):
                items.append(_lin_comb(ev, [a.items[i * a.shape[1] + k] for k in range(a.shape[1])],
                                       [b.items[k * b.shape[1] + j] for k in range(b.shape[0])], node, fr))
        return NdArr((a.shape[0], b.shape[1]), items)
    ev.unsupported("matmul of these operands", node, fr)


def h_tensordot(ev, args, kwargs, fr, node):
    """np.tensordot(M, x, axes=(i, axis)) for an explicit matrix M and x with explicit components along `axis`:
    result[j, ...] = sum_k M[k, j] * x_k (i == 0) or sum_k M[j, k] * x_k (i == 1); the free matrix axis comes first."""
    m, x = args[0], args[1]
    axes = kwargs.get("axes", args[2] if len(args) > 2 else None)
    if not (isinstance(m, NdArr) and m.ndim == 2 and isinstance(x, StackV) and isinstance(axes, (TupleV, ListV)) and len(axes.items) == 2):
        ev.unsupported("np.tensordot of these operands", node, fr)
    i, ax = ev.concrete_int(axes.items[0]), ev.concrete_int(axes.items[1])
    nd = len(x.shape) if x.shape is not None else None
    if i is None or ax is None or nd is None or ax % nd != x.axis % nd:
        ev.unsupported("np.tensordot contracting an axis without explicit components", node, fr)
    i %= 2
    if m.shape[i] != len(x.items):
        raise_value_error(ev, "tensordot: shape mismatch for sum", node, fr)
    free = m.shape[1 - i]
    comps = []
    for j in range(free):
        coefs = [m.items[(k * m.shape[1] + j) if i == 0 else (j * m.shape[1] + k)] for k in range(m.shape[i])]
        comps.append(_lin_comb(ev, x.items, coefs, node, fr))
    out = StackV(comps, 0, x.backend)
    rest = [d for k_, d in enumerate(x.shape) if k_ != x.axis % nd]
    out.shape = tuple([sp.Integer(free)] + rest)
    out.dtype = x.dtype
    return out


def nd_to_indexed(ev, x: NdArr):
    """An explicit array of scalar terms as an *indexed* array term: one fresh index symbol per axis longer than 1 and
    the element given by nested selections Sel(i, v0, v1, ...) on those symbols.  Lets an explicit (per-element) array meet
    a symbolic-length array under numpy broadcasting without losing which element goes where."""
    if not all(isinstance(e, Num) and not e.shape for e in x.items) or len(x.items) > 4096:
        return None
    syms = [ev.new_index("e", sp.Integer(k)) if k > 1 else None for k in x.shape]

    def build(axis, offset, stride):
        if axis == len(x.shape):
            return x.items[offset].expr
        k = x.shape[axis]
        sub = stride // k
        if k == 1:
            return build(axis + 1, offset, sub)
        parts = [build(axis + 1, offset + j * sub, sub) for j in range(k)]
        if all(p == parts[0] for p in parts):
            return parts[0]
        return F["Sel"](syms[axis], *parts)
    total = 1
    for k in x.shape:
        total *= k
    expr = build(0, 0, total)
    kinds = {e.kind for e in x.items}
    units = {e.unit for e in x.items}
    dt_ = getattr(x, "dtype", None)
    if dt_ is None and x.items and all(isinstance(e, Num) and e.expr.is_number for e in x.items):
        # an explicit array of Python numbers has NumPy's default dtype for them: complex128 / float64 / int64
        if any(e.expr.is_real is False for e in x.items):
            dt_ = ExtV("numpy.complex128")
        elif all(e.expr.is_integer and not e.isfloat for e in x.items):
            dt_ = ExtV("numpy.int64")
        else:
            dt_ = ExtV("numpy.float64")
    return Num(expr, kind="array" if kinds <= {"number", "array"} else kinds.pop(), shape=tuple(sp.Integer(k) for k in x.shape), axes=tuple(syms),
               unit=units.pop() if len(units) == 1 else None, dtype=dt_, isfloat=any(e.isfloat for e in x.items))


def nd_binop(ev, op, a, b, node, fr):
    if isinstance(a, NdArr) and isinstance(b, NdArr):
        if a.shape == b.shape:
            out = NdArr(a.shape, [binop(ev, op, x, y, node, fr) for x, y in zip(a.items, b.items)])
            out.dtype = promote_dtype(getattr(a, "dtype", None), getattr(b, "dtype", None))
            return out
        return nd_broadcast(ev, op, a, b, node, fr)
    if isinstance(a, NdArr):
        mb = nd_materialize(b)
        if mb is not None:
            return nd_binop(ev, op, a, mb, node, fr)
        if isinstance(b, Num) and b.shape and any((not s.is_number) or s != 1 for s in b.shape):
            ia = nd_to_indexed(ev, a)
            if ia is not None:
                return binop(ev, op, ia, b, node, fr)
            if b.tag == "data":
                return Num(F["Opq"](sp.Symbol("bcast_nd"), b.expr), kind="array", shape=b.shape, backend=b.backend, dtype=b.dtype, tag="data")
        out = a.map(lambda x: binop(ev, op, x, b, node, fr))
        return out
    ma = nd_materialize(a)
    if ma is not None:
        return nd_binop(ev, op, ma, b, node, fr)
    if isinstance(a, Num) and a.shape and any((not s.is_number) or s != 1 for s in a.shape):
        ib = nd_to_indexed(ev, b)
        if ib is not None:
            return binop(ev, op, a, ib, node, fr)
        if a.tag == "data":
            return Num(F["Opq"](sp.Symbol("bcast_nd"), a.expr), kind="array", shape=a.shape, backend=a.backend, dtype=a.dtype, tag="data")
    return b.map(lambda y: binop(ev, op, a, y, node, fr))


def stack_binop(ev, op, a, b, node, fr):
    def comp(x, i, axis):
        if isinstance(x, Num) and x.shape is not None and len(x.shape) > axis and x.shape[axis] != 1:
            shp = [s_ for k, s_ in enumerate(x.shape) if k != axis]
            return Num(F["Take"](x.expr, sp.Integer(i), sp.Integer(axis)), kind=x.kind, shape=shp, backend=x.backend,
                       tag=x.tag, dtype=x.dtype)
        return x
    if isinstance(a, StackV) and isinstance(b, StackV):
        if a.axis == b.axis and len(a.items) == len(b.items):
            return a.map(lambda x: x) if False else _stack_like(a, [binop(ev, op, x, y, node, fr) for x, y in zip(a.items, b.items)])
        ev.unsupported("operation between differently stacked arrays", node, fr)
    if isinstance(a, StackV):
        out = _stack_like(a, [binop(ev, op, x, comp(b, i, a.axis), node, fr) for i, x in enumerate(a.items)])
        other = b
    else:
        out = _stack_like(b, [binop(ev, op, comp(a, i, b.axis), y, node, fr) for i, y in enumerate(b.items)])
        other = a
    oshape = getattr(other, "shape", None)
    if oshape is not None and (out.shape is None or len(oshape) > len(out.shape)
                               or (len(oshape) == len(out.shape) and any(x == 1 and y != 1 for x, y in zip(out.shape, oshape)))):
        if out.shape is None or len(oshape) != len(out.shape):
            out.shape = tuple(oshape)
        else:
            out.shape = tuple(y if x == 1 else x for x, y in zip(out.shape, oshape))
    return out


def stack_getitem(ev, st, idx, fr, node):
    """Basic indexing of an array with explicit components along st.axis."""
    items = idx.items if isinstance(idx, TupleV) else [idx]
    full = lambda i: isinstance(i, SliceV) and all(isinstance(q, NoneV) for q in (i.start, i.stop, i.step))  # noqa: E731
    if all(isinstance(i, NoneV) or full(i) for i in items):
        if st.shape is not None and any(isinstance(i, NoneV) for i in items):
            out = st.map(lambda x: x)
            out.shape = index_shape(ev, st.shape, items)
            return out
        return st
    ndim = len(st.shape) if st.shape is not None else None
    # expand Ellipsis
    if any(isinstance(i, ExtV) and i.dotted == "builtins.Ellipsis" for i in items):
        if ndim is None:
            ev.unsupported("Ellipsis index into a stacked array of unknown rank", node, fr)
        k = [j for j, i in enumerate(items) if isinstance(i, ExtV)][0]
        nreal = len([i for i in items if not isinstance(i, (NoneV, ExtV))])
        fill = [SliceV(NONE, NONE, NONE)] * (ndim - nreal)
        items = items[:k] + fill + items[k + 1:]
    # position of each index item among source axes
    pos = 0
    at_axis = None
    before, after = [], []
    for it in items:
        if isinstance(it, NoneV):
            (before if at_axis is None and pos <= st.axis else after).append(it)
            continue
        if pos == st.axis:
            at_axis = it
        elif pos < st.axis:
            before.append(it)
        else:
            after.append(it)
        pos += 1
    sub = TupleV(before + after)

    def on_item(x):
        if not sub.items or all(full(i) for i in sub.items):
            return x
        return ev.getitem(x, sub, fr, node)
    if at_axis is None or full(at_axis):
        out = st.map(on_item)
        return out
    k = ev.concrete_int(at_axis)
    if k is not None:
        try:
            return on_item(st.items[k])
        except IndexError:
            from .symeval import Raised
            raise Raised("IndexError", node, "index out of range on the stacked axis")
    ev.unsupported("non-constant index on the stacked axis", node, fr)


def _stack_like(st, items):
    out = StackV(items, st.axis, st.backend)
    out.shape, out.dtype = st.shape, st.dtype
    return out


# ----------------------------------------------------------------------------- subscripts
def _norm_index(ev, idx):
    if isinstance(idx, TupleV):
        return list(idx.items)
    return [idx]


def index_term(ev, idx):
    """Encode an index value as a sympy term (for opaque, structural comparison)."""
    if isinstance(idx, TupleV):
        return F["Tup"](*[index_term(ev, x) for x in idx.items])
    if isinstance(idx, SliceV):
        g = lambda x: NONE_S if isinstance(x, NoneV) else index_term(ev, x)  # noqa: E731
        return F["Slc"](g(idx.start), g(idx.stop), g(idx.step))
    if isinstance(idx, NoneV):
        return NONE_S
    if isinstance(idx, Num):
        return idx.expr
    if isinstance(idx, ExtV) and idx.dotted == "builtins.Ellipsis":
        return sp.Symbol("Ellipsis_")
    if isinstance(idx, StrV):
        return sp.Symbol("str_" + idx.s)
    if isinstance(idx, BoolV):
        return sp.Integer(int(idx.b))
    if isinstance(idx, NdArr):
        if idx.items and all(isinstance(x, Num) and x.expr.is_Integer for x in idx.items) and idx.ndim == 1:
            return sp.Function("IdxArr")(*[x.expr for x in idx.items])        # explicit integer index array
        if all(isinstance(x, BoolV) for x in idx.items):
            return sp.Symbol("mask_" + "".join("1" if x.b else "0" for x in idx.items))
        if not idx.items:
            return sp.Function("IdxArr")()
        raise Unsupported("explicit index array that is neither integers nor booleans")
    raise Unsupported(f"index {idx!r}")


def num_getitem(ev, obj: Num, idx, fr, node):
    out = _num_getitem(ev, obj, idx, fr, node)
    if obj.tag == "negzero" and isinstance(out, Num) and out is not obj and out.tag is None and out.expr == 0:
        out.tag = "negzero"
    if isinstance(out, Num) and out is not obj and out.base is None and out.shape and not any(isinstance(i, (NdArr,)) for i in _norm_index(ev, idx)):
        out.base = obj        # basic indexing gives a view
    return out


def _num_getitem(ev, obj: Num, idx, fr, node):
    from .symeval import Raised
    items = _norm_index(ev, idx)
    if obj.shape is None and obj.tag not in ("data", "filled") and obj.kind in ("number", "quantity", "time") \
            and all(isinstance(i, NoneV) for i in items):
        obj = Num(obj.expr, kind=obj.kind, shape=(), axes=(), unit=obj.unit, cls=obj.cls, dtype=obj.dtype)
    if obj.shape is not None and obj.axes is not None and obj.tag not in ("data", "filled"):
        # structured (affine / indexed) array: interpret basic indexing exactly
        shape, axes = list(obj.shape), list(obj.axes)
        expr = obj.expr
        new_shape, new_axes = [], []
        pos = 0
        ok = True
        for it in items:
            if isinstance(it, NoneV):
                new_shape.append(sp.Integer(1))
                new_axes.append(None)
                continue
            if pos >= len(shape):
                raise Raised("IndexError", node, "too many indices")
            n, ax = shape[pos], axes[pos]
            if isinstance(it, SliceV):
                if all(isinstance(x, NoneV) for x in (it.start, it.stop, it.step)):
                    new_shape.append(n)
                    new_axes.append(ax)
                else:
                    st = sp.Integer(0) if isinstance(it.start, NoneV) else it.start.expr
                    sp_ = n if isinstance(it.stop, NoneV) else it.stop.expr
                    step = sp.Integer(1) if isinstance(it.step, NoneV) else it.step.expr
                    if ax is None:
                        ok = False
                        break
                    j = ev.new_index("j", None)
                    length = sp.ceiling((sp_ - st) / step)
                    ev.index_len[j] = length
                    expr = expr.subs(ax, st + j * step)
                    new_shape.append(length)
                    new_axes.append(j)
            elif isinstance(it, Num) and (it.shape is None or len(it.shape) == 0):
                k = it.expr
                if k.is_number and k < 0:
                    k = n + k
                elif not k.is_number and k.is_nonnegative is not True and k.is_negative is not True:
                    # sign unknown: keep as is (assume in-range non-negative); callers give assumptions
                    pass
                if ax is not None:
                    expr = expr.subs(ax, k)
                elif n != 1 and expr.free_symbols:
                    ok = False
                    break
            else:
                ok = False
                break
            pos += 1
        if ok:
            new_shape += shape[pos:]
            new_axes += axes[pos:]
            if not new_shape:
                return Num(expr, kind=obj.kind if obj.kind != "array" else "number", unit=obj.unit, dtype=obj.dtype)
            return Num(expr, kind=obj.kind, shape=new_shape, axes=new_axes, unit=obj.unit, dtype=obj.dtype,
                       backend=obj.backend)
    # opaque structural subscript
    _full = lambda i: isinstance(i, SliceV) and all(isinstance(x, NoneV) for x in (i.start, i.stop, i.step))  # noqa: E731
    if all(_full(i) or isinstance(i, NoneV) for i in items):
        if all(_full(i) for i in items):
            return obj
        shape = index_shape(ev, obj.shape, items) if obj.shape is not None else None
        return Num(obj.expr, kind=obj.kind, shape=shape, unit=obj.unit, backend=obj.backend, tag=obj.tag, dtype=obj.dtype)
    shape = None
    if obj.shape is not None:
        shape = index_shape(ev, obj.shape, items)
    return Num(F["Idx"](obj.expr, index_term(ev, idx)), kind=obj.kind, shape=shape, unit=obj.unit,
               backend=obj.backend, tag=obj.tag, dtype=obj.dtype)


def slice_len(start, stop, step, n):
    """Symbolic length of range(*slice(start, stop, step).indices(n)); exact for concrete cases."""
    # z[: n - n % p]: the stop n - Mod(n, p) lies in [0, n] for every n >= 0, p > 0 -- the length is the stop itself
    try:
        st_, sp_, se_ = sp.sympify(start), sp.sympify(stop), sp.sympify(step)
        n_ = sp.sympify(n)
        if st_ == NONE_S and se_ == NONE_S:
            d_ = sp.expand(n_ - sp_)
            if isinstance(d_, sp.Mod) and d_.args[0] == n_ and d_.args[1].is_positive and (n_.is_nonnegative or n_.is_positive):
                return sp_
    except Exception:
        pass
    return F["SliceLen"](start, stop, step, n)


def index_shape(ev, shape, items):
    out = []
    pos = 0
    for it in items:
        if isinstance(it, NoneV):
            out.append(sp.Integer(1))
            continue
        if isinstance(it, ExtV) and it.dotted == "builtins.Ellipsis":
            rest = len([x for x in items[items.index(it) + 1:] if not isinstance(x, NoneV)])
            while len(shape) - pos > rest:
                out.append(shape[pos])
                pos += 1
            continue
        if pos >= len(shape):
            return None
        n = shape[pos]
        if isinstance(it, SliceV):
            if all(isinstance(x, NoneV) for x in (it.start, it.stop, it.step)):
                out.append(n)
            else:
                g = lambda x: NONE_S if isinstance(x, NoneV) else x.expr  # noqa: E731
                a, b, c = g(it.start), g(it.stop), g(it.step)
                if n.is_number and all(q == NONE_S or q.is_number for q in (a, b, c)):
                    pa, pb_, pc_ = (None if q == NONE_S else int(q) for q in (a, b, c))
                    out.append(sp.Integer(len(range(*slice(pa, pb_, pc_).indices(int(n))))))
                elif c == NONE_S or c == 1:
                    lo = sp.Integer(0) if a == NONE_S else a
                    hi = n if b == NONE_S else b
                    if _nonneg(lo) and _nonneg(hi):
                        # clamp-free exact length when bounds are known to lie in [0, n]
                        out.append(sp.Max(sp.Min(hi, n) - sp.Min(lo, n), 0))
                    else:
                        out.append(slice_len(a, b, c, n))
                else:
                    out.append(slice_len(a, b, c, n))
        elif isinstance(it, Num):
            if it.shape:     # advanced / mask index
                return None
        elif isinstance(it, NdArr) and it.ndim == 1 and all(isinstance(x, Num) for x in it.items):
            out.append(sp.Integer(len(it.items)))          # integer index array: that many selected along this axis
        elif isinstance(it, NdArr) and it.ndim == 1 and all(isinstance(x, BoolV) for x in it.items):
            out.append(sp.Integer(sum(1 for x in it.items if x.b)))
        else:
            return None
        pos += 1
    out += list(shape[pos:])
    return tuple(out)


def _nonneg(e):
    return e.is_nonnegative is True or (e.is_number and e >= 0)


def array_store(ev, obj: Num, idx, v, fr, node):
    """x[idx] = v on an array term: logged for coverage rules; the term itself is kept."""
    # a Boolean mask among the indices must match the extents of the axes it stands for exactly (masks do not broadcast):
    # x[:, mask] with x of shape (N, 4, 2) and a mask of shape (4, 1) is an IndexError
    items = idx.items if isinstance(idx, TupleV) else [idx]
    if obj.shape is not None:
        pos = 0
        for it in items:
            if isinstance(it, NdArr) and it.items and all(isinstance(e, BoolV) for e in it.items):
                dims = obj.shape[pos:pos + it.ndim]
                if len(dims) == it.ndim and all(sp.sympify(d_).is_number for d_ in dims) and tuple(int(sp.sympify(d_)) for d_ in dims) != tuple(it.shape):
                    from .symeval import Raised
                    raise Raised("IndexError", node, f"boolean index did not match indexed array: mask shape {tuple(it.shape)}, axes {tuple(dims)}",
                                 origin=(fr.fi.qualname if fr is not None and getattr(fr, "fi", None) is not None else None))
                pos += it.ndim
            elif isinstance(it, NoneV):
                continue
            else:
                pos += 1
    ev.trace.append(("store", obj, idx, v, node))


def ext_getitem(ev, obj: ExtV, idx, fr, node):
    if obj.dotted in ("numpy.s_", "numpy.index_exp"):
        return idx
    ev.unsupported(f"subscript of {obj.dotted}", node, fr)


# ----------------------------------------------------------------------- value attributes
def val_getattr(ev, obj, name, fr, node):
    from .symeval import Raised
    if isinstance(obj, Num):
        return num_getattr(ev, obj, name, fr, node)
    if isinstance(obj, HandleV):
        return handle_getattr(ev, obj, name, fr, node)
    if isinstance(obj, HeaderV) and name in obj.hattrs:
        return obj.hattrs[name]
    if isinstance(obj, PolyV):
        if name in ("domain", "window"):
            return obj.view_of(name)      # an ndarray of two numbers, the same object on every read
        if name == "coef":
            return NdArr((len(obj.coeffs),), [Num(c) for c in obj.coeffs])
        return BoundBuiltin(obj, name)
    if isinstance(obj, NdArr):
        if name == "shape":
            return TupleV([Num(s) for s in obj.shape])
        if name == "ndim":
            return Num(obj.ndim)
        if name == "size":
            return Num(len(obj.items))
        if name in ("real", "imag"):
            return obj.map(lambda x: num_getattr(ev, x, name, fr, node))
        if name == "value" and obj.items and all(isinstance(x, Num) and x.kind in ("quantity", "number", "array") for x in obj.items):
            return obj.map(lambda x: num_getattr(ev, x, "value", fr, node) if x.kind == "quantity" else x)     # the numbers of an array Quantity
        if name == "unit" and obj.items and all(isinstance(x, Num) and x.kind == "quantity" for x in obj.items):
            return num_getattr(ev, obj.items[0], "unit", fr, node)
        if name == "isscalar":
            return BoolV(False)
        if name == "flat":
            return NdArr((len(obj.items),), list(obj.items))
        if name == "dtype":
            return getattr(obj, "dtype", None) or ExtV("numpy.dtype:unknown")
        if name == "T":
            return nd_permute(obj, list(reversed(range(obj.ndim))))
        return BoundBuiltin(obj, name)
    if isinstance(obj, SliceV):
        if name in ("start", "stop", "step"):
            return getattr(obj, name)
        return BoundBuiltin(obj, name)
    if isinstance(obj, (StrV, DictV, ListV, TupleV, SetV)):
        pytype = {StrV: str, DictV: dict, ListV: list, TupleV: tuple, SetV: set}[type(obj)]
        if not hasattr(pytype, name):
            raise Raised("AttributeError", node, f"{pytype.__name__} has no attribute {name}")
        return BoundBuiltin(obj, name)
    if isinstance(obj, NoneV):
        raise Raised("AttributeError", node, f"None has no attribute {name}")
    if isinstance(obj, SigParamV):
        if name == "kind":
            return ExtV("inspect.Parameter." + obj.kind)
        if name in ("POSITIONAL_ONLY", "KEYWORD_ONLY", "VAR_KEYWORD", "VAR_POSITIONAL", "POSITIONAL_OR_KEYWORD"):
            return ExtV("inspect.Parameter." + name)
        if name == "default":
            return ExtV("inspect.Parameter.empty") if not obj.has_default else OpaqueV("default")
        if name == "empty":
            return ExtV("inspect.Parameter.empty")
        if name == "name":
            return StrV(obj.name)
    if isinstance(obj, SignatureV):
        if name == "parameters":
            d = DictV()
            for p in obj.params:
                d.d[p.name] = p
            return d
    if isinstance(obj, FuncV):
        if name in ("__name__", "__qualname__"):
            return StrV(obj.fi.name)
        if name == "__doc__":
            return StrV("")
        return BoundBuiltin(obj, name)
    if isinstance(obj, DispatchV):
        if name in ("__name__", "__qualname__", "__doc__"):
            return StrV("")
        return BoundBuiltin(obj, name)
    if isinstance(obj, OpaqueV):
        if obj.what == "finfo" and name in obj.payload:
            return obj.payload[name]
        if obj.what == "array0d":
            if name == "ndim":
                return Num(0)
            if name == "shape":
                return TupleV([])
        if obj.what == "strarray" and name == "dtype":
            return OpaqueV("strdtype")
        if obj.what == "strdtype" and name == "kind":
            return StrV("U")
        if obj.what == "nditer" and name == "multi_index":
            return obj.payload["current"]
        return BoundBuiltin(obj, name)
    if isinstance(obj, BoundBuiltin):
        return BoundBuiltin(obj, name)
    if isinstance(obj, CondV):
        return BoundBuiltin(obj, name)
    ev.unsupported(f"attribute .{name} of {obj!r}", node, fr)


REAL_OF = {"numpy.complex128": "numpy.float64", "numpy.complex64": "numpy.float32"}


def real_dtype(dt):
    if isinstance(dt, ExtV) and dt.dotted in REAL_OF:
        return ExtV(REAL_OF[dt.dotted])
    return dt


def num_getattr(ev, obj: Num, name, fr, node):
    if name in ("real", "imag"):
        fn = sp.re if name == "real" else sp.im
        return obj.like(fn(obj.expr), unit=obj.unit, dtype=real_dtype(obj.dtype))
    if name == "shape":
        if obj.shape is None:
            if obj.kind in ("number", "quantity", "time") and obj.tag != "data":
                return TupleV([])
            ev.unsupported("shape of an array of unknown shape", node, fr)
        return TupleV([Num(s) for s in obj.shape])
    if name == "ndim":
        if obj.shape is None:
            if obj.tag == "data" or obj.kind == "array":
                ev.unsupported("ndim of an array of unknown shape", node, fr)
            return Num(0)
        return Num(len(obj.shape))
    if name == "size":
        if obj.shape is None:
            return Num(1)
        return Num(sp.Mul(*obj.shape) if obj.shape else 1)
    if name == "dtype":
        return obj.dtype if obj.dtype is not None else ExtV("numpy.dtype:unknown")
    if name == "isscalar":
        return BoolV(obj.shape is None or len(obj.shape) == 0)
    if obj.kind == "time" and name in ("jd1", "jd2", "jd"):
        # the two-part Julian date *in the object's own time scale*: jd1 + jd2 = instant/day + offset of that scale from the
        # reference scale (unknown per object: 0 for the same scale, 37 s for TAI vs UTC, ...)
        days = obj.expr * UNITS["Hz"] / 86400
        off = F["TimeScaleOffsetDays"](sp.expand(obj.expr * UNITS["Hz"]))
        whole = F["JD1of"](sp.expand(obj.expr * UNITS["Hz"]))
        if name == "jd":
            return Num(days + off, kind="number", shape=obj.shape, axes=obj.axes, isfloat=True)
        if name == "jd1":
            return Num(whole, kind="number", shape=obj.shape, axes=obj.axes, isfloat=True)
        return Num(days + off - whole, kind="number", shape=obj.shape, axes=obj.axes, isfloat=True)
    if obj.kind == "time" and name == "precision":
        return OpaqueV("timeprecision", obj)     # not tracked: comparisons with a literal are undecided (both arms explored)
    if obj.kind == "quantity" and name in ("sec", "jd") and dim_of(obj.expr) == dim_of(1 / UNITS["Hz"]):
        # a TimeDelta (difference of two Times is carried as a duration): .sec is its value in seconds, .jd in days
        v_ = obj.expr * UNITS["Hz"]
        return Num(v_ if name == "sec" else v_ / 86400, kind="array" if obj.shape else "number", shape=obj.shape, axes=obj.axes, isfloat=True)
    if obj.kind == "time" and name in ("format", "scale"):
        return OpaqueV("time" + name, obj)       # not tracked: comparisons with a literal are undecided (both arms explored)
    if obj.kind == "time" and name in ("value", "isot", "iso", "fits", "yday", "datetime", "datetime64", "ymdhms", "unix", "gps", "cxcsec", "byear", "jyear",
                                       "decimalyear", "plot_date", "byear_str", "jyear_str"):
        # the instant rendered in a (textual or single-number) format: a finite number of digits, not the two-double instant
        return OpaqueV("timerendered", {"time": obj, "as": name})
    if name == "value":
        if obj.unit is not None:
            return Num(obj.expr / obj.unit, kind="array" if obj.shape else "number", shape=obj.shape, axes=obj.axes, isfloat=True)
        usym = sp.Symbol("unitof_" + "".join(c if c.isalnum() else "_" for c in str(obj.expr))[:40], positive=True)
        d_ = dim_of(obj.expr) if obj.kind == "quantity" else None
        base = sp.Mul(*[k_ ** v_ for k_, v_ in d_.items()]) if d_ else sp.Integer(1)
        # the bare number in front of the unit the caller happens to use: the physical value divided by that (unknown-scale) unit
        return Num(obj.expr / (usym * base), kind="array" if obj.shape else "number", shape=obj.shape, axes=obj.axes)
    if name == "unit":
        if obj.unit is not None:
            return Num(obj.unit, kind="quantity", unit=obj.unit, tag="unit")
        if obj.kind == "quantity":
            # the unit the caller's Quantity happens to be held in: unknown, but the same for every read of this quantity; it has the
            # quantity's dimension (so conversions to it are dimensionally sound) and an unknown positive scale
            d_ = dim_of(obj.expr)
            if d_ is not None:
                usym = sp.Symbol("unitof_" + "".join(c if c.isalnum() else "_" for c in str(obj.expr))[:40], positive=True)
                base = sp.Mul(*[k_ ** v_ for k_, v_ in d_.items()]) if d_ else sp.Integer(1)
                return Num(usym * base, kind="quantity", unit=usym * base, tag="unit")
        ev.unsupported("unit of a quantity whose representation unit is unknown", node, fr)
    if name == "physical_type":
        d = dim_of(obj.expr)
        return StrV("dimensionless" if d == {} else ("unknown" if d is None else "dimensional"))
    if name == "T":
        return obj
    if name in ("mjd", "jd"):
        # a Time as a plain number of days (dimensionless): seconds * Hz / 86400
        return Num(obj.expr * UNITS["Hz"] / 86400, kind="number", shape=obj.shape, axes=obj.axes, isfloat=True)
    if name == "isot":
        return StrV("<isot>")       # (non-time values only; a Time's renderings are handled above)
    if name == "cycle" or name == "si" or name == "cgs":
        return obj
    if name == "flat":
        return obj
    return BoundBuiltin(obj, name)


# ------------------------------------------------------------------------------ methods
def call_method(ev, recv, name, args, kwargs, fr, node):
    from .symeval import Raised, PhiV
    if isinstance(recv, BoundBuiltin):
        # e.g. Time.isclose bound on an ExtV is handled in call_ext; nested bound builtins are not expected
        ev.unsupported(f"method chain .{recv.name}.{name}", node, fr)
    if isinstance(recv, Num):
        res_ = num_method(ev, recv, name, args, kwargs, fr, node)
        if name in ("astype", "copy") and isinstance(res_, Num) and res_ is not recv and (recv.shape or recv.tag == "data") \
                and not (isinstance(kwargs.get("copy"), BoolV) and not kwargs["copy"].b):
            # a COPY: it holds what the source held at this moment (stores logged before this point), and goes its own way afterwards
            res_.copied_from = (recv, len(ev.trace))
        return res_
    if isinstance(recv, HandleV):
        return handle_method(ev, recv, name, args, kwargs, fr, node)
    if isinstance(recv, PolyV):
        return poly_method(ev, recv, name, args, kwargs, fr, node)
    if isinstance(recv, OpaqueV) and recv.what == "textfile":
        if name == "readline":
            st = recv.payload
            if st["pos"] < len(st["lines"]):
                st["pos"] += 1
                return StrV(st["lines"][st["pos"] - 1])
            return StrV("")
        if name in ("close", "__enter__", "__exit__"):
            return NONE
    if isinstance(recv, OpaqueV) and recv.what == "recbuf":
        if name == "view" and args:
            if isinstance(args[0], ClassV):
                return ObjV(args[0].ci, {"_recbuf": recv, "imaginary": BoolV(False)}, tag="recview")
            if isinstance(args[0], ExtV) and args[0].dotted == "numpy.ndarray":
                return recv
        ev.unsupported(f"method .{name} of a record array", node, fr)
    if isinstance(recv, NdArr):
        return nd_method(ev, recv, name, args, kwargs, fr, node)
    if isinstance(recv, StackV):
        if name in ("astype", "conj", "conjugate", "copy", "compute", "persist", "rechunk", "round"):
            out = recv.map(lambda x: (call_method if isinstance(x, StackV) else num_method)(ev, x, name, args, kwargs, fr, node))
            if name == "compute":
                out.backend = "numpy"
            if name == "rechunk":
                out.backend = "dask"
            return out
    if isinstance(recv, SliceV):
        if name == "indices":
            return slice_indices(ev, recv, args[0], fr, node)
    if isinstance(recv, DictV):
        d = recv.d
        if name == "get":
            k = ev.key(args[0])
            return d.get(k, args[1] if len(args) > 1 else NONE)
        if name == "update":
            for a in args:
                if isinstance(a, DictV):
                    d.update(a.d)
                elif isinstance(a, PhiV):
                    ev.unsupported("dict.update with an undecided dictionary", node, fr)
                else:
                    ev.unsupported(f"dict.update({a!r})", node, fr)
            d.update(kwargs)
            return NONE
        if name == "items":
            return ListV([TupleV([ev.unkey(k), v]) for k, v in d.items()])
        if name == "keys":
            return ListV([ev.unkey(k) for k in d])
        if name == "values":
            return ListV(list(d.values()))
        if name == "copy":
            return DictV(d)
        if name == "setdefault":
            k = ev.key(args[0])
            if k not in d:
                d[k] = args[1] if len(args) > 1 else NONE
            return d[k]
        if name == "pop":
            k = ev.key(args[0])
            if k in d:
                return d.pop(k)
            if len(args) > 1:
                return args[1]
            raise Raised("KeyError", node)
    if isinstance(recv, ListV):
        if name == "append":
            recv.items.append(args[0])
            return NONE
        if name == "extend":
            recv.items.extend(ev.iterate(args[0], fr, node))
            return NONE
        if name == "copy":
            return ListV(recv.items)
        if name == "sort" and not args:
            recv.items[:] = h_sorted(ev, [ListV(list(recv.items))], kwargs, fr, node).items     # in place, stable, same key rules as sorted()
            return NONE
        if name == "reverse" and not args:
            recv.items.reverse()
            return NONE
        if name == "pop":
            return recv.items.pop(*(ev.concrete_int(a) for a in args))
        if name == "index":
            for i, x in enumerate(recv.items):
                if ev.equal_vals(x, args[0]) is True:
                    return Num(i)
            raise Raised("ValueError", node)
    if isinstance(recv, (TupleV, ListV)) and name == "index":
        for i, x in enumerate(recv.items):
            if ev.equal_vals(x, args[0]) is True:
                return Num(i)
        raise Raised("ValueError", node)
    if isinstance(recv, StrV):
        return str_method(ev, recv, name, args, kwargs, fr, node)
    if isinstance(recv, DispatchV) and name == "register":
        t = args[0] if args else None
        key = t.dotted if isinstance(t, ExtV) else (t.ci.name if isinstance(t, ClassV) else None)
        if key in ("dask.array.core.Array",):
            key = "dask.array.Array"
        if len(args) == 2:
            recv.registry[key] = args[1]
            return args[1]

        def deco(ev2, a, k, fr2, node2):
            recv.registry[key] = a[0]
            return a[0]
        return PyFuncV(deco, "register")
    if isinstance(recv, FuncV):
        if name == "register":      # singledispatch registration
            return OpaqueV("decorator")
    if isinstance(recv, OpaqueV):
        if recv.what == "handle":
            return OpaqueV("handle-result", (name, args))
    ev.unsupported(f"method .{name}() on {recv!r}", node, fr)


def slice_indices(ev, s: SliceV, n: Val, fr, node):
    """slice.indices(n) for a positive step, exactly as CPython computes it:
    start/stop: None -> 0 / n ; k >= 0 -> min(k, n) ; k < 0 -> max(k + n, 0)."""
    nn = n.expr
    g = lambda x: None if isinstance(x, NoneV) else x.expr  # noqa: E731
    a, b, c = g(s.start), g(s.stop), g(s.step)
    if all(x is None or x.is_number for x in (a, b, c)) and nn.is_number:
        st, sp_, stp = slice(*(None if x is None else int(x) for x in (a, b, c))).indices(int(nn))
        return TupleV([Num(st), Num(sp_), Num(stp)])
    step = sp.Integer(1) if c is None else c
    pos_step = (c is None) or c.is_positive or (c.is_number and c > 0)
    if not pos_step:
        if c.is_number or c.is_negative or c.is_zero:
            ev.unsupported("slice.indices with a non-positive step", node, fr)
        # sign of the step unknown: the analysed code asserts step > 0 right after; model that branch
        ev.trace.append(("indices-step-unknown", str(c)))

    def clamp(k, default):
        if k is None:
            return default
        if k.is_nonnegative or (k.is_number and k >= 0):
            return sp.Min(k, nn)
        if k.is_negative or (k.is_number and k < 0):
            return sp.Max(k + nn, 0)
        return mk_ite(k < 0, sp.Max(k + nn, 0), sp.Min(k, nn))
    start, stop = clamp(a, sp.Integer(0)), clamp(b, nn)
    ev.__dict__.setdefault("indices_calls", []).append((s, nn, (start, stop, step)))
    return TupleV([Num(start), Num(stop), Num(step)])


def to_decimal(e):
    """Exact decimal.Decimal of a rational with a terminating decimal expansion (else None)."""
    import decimal
    e = sp.nsimplify(e) if not e.is_Rational else e
    if not e.is_Rational:
        return None
    q = int(e.q)
    while q % 2 == 0:
        q //= 2
    while q % 5 == 0:
        q //= 5
    if q != 1:
        return None
    with decimal.localcontext() as ctx:
        ctx.prec = 200
        return decimal.Decimal(int(e.p)) / decimal.Decimal(int(e.q))


def py_str_of_number(e):
    """str(float) / str(np.float64): the shortest decimal string that round-trips (CPython and NumPy agree on the digits),
    for a value that is exactly a double."""
    if e.is_Rational and is_double(e):
        from fractions import Fraction
        return repr(float(Fraction(int(e.p), int(e.q))))
    if e.is_Integer:
        return str(int(e)) + ".0"
    d = to_decimal(e)
    if d is None:
        return None
    t = format(d, "f")
    if "." not in t:
        t += ".0"
    t = t.rstrip("0")
    if t.endswith("."):
        t += "0"
    digits = len(t.replace("-", "").replace(".", "").lstrip("0"))
    if digits > 15:
        return None
    if abs(d) != 0 and abs(d) < decimal_1e4():
        return None         # repr switches to exponent notation below 1e-4
    return t


def decimal_1e4():
    import decimal
    return decimal.Decimal("0.0001")


def py_format(ev, spec_template, args, node, fr):
    """'{0:1.3f}'.format(x) / '{:02d}'.format(k) for exact numbers, through Python's own format machinery on Decimal/int."""
    import re
    vals = []
    for a in args:
        if isinstance(a, Num) and a.expr.is_number:
            if a.expr == 0 and a.tag == "negzero":
                import decimal
                vals.append(decimal.Decimal("-0"))
            elif a.expr.is_real is False and a.expr.as_real_imag()[1] != 0:
                # a complex double: Python formats the two parts separately ('0.000+1.250j'); both parts are doubles here
                re_, im_ = a.expr.as_real_imag()
                if to_decimal(re_) is None or to_decimal(im_) is None:
                    ev.unsupported("formatting a complex number whose parts are not doubles", node, fr)
                vals.append(complex(float(re_), float(im_)))
            elif a.expr.is_Integer and not a.isfloat:
                vals.append(int(a.expr))
            elif a.expr.is_Integer:
                import decimal
                vals.append(decimal.Decimal(int(a.expr)))     # a float holding a whole number formats like a float
            else:
                d = to_decimal(a.expr)
                if d is None:
                    ev.unsupported("formatting a number without a terminating decimal expansion", node, fr)
                vals.append(d)
        elif isinstance(a, StrV):
            vals.append(a.s)
        else:
            ev.unsupported(f"str.format of {a!r}", node, fr)
    try:
        return StrV(spec_template.format(*vals))
    except Exception as e:  # noqa
        from .symeval import Raised
        raise Raised("ValueError", node, f"format failed: {e}")


def str_method(ev, recv: StrV, name, args, kwargs, fr, node):
    s = recv.s
    sa = [a.s for a in args if isinstance(a, StrV)]
    if name == "format" and "{" in s and "<" not in s and args and not kwargs:
        return py_format(ev, s, args, node, fr)
    if name in ("partition", "rpartition"):
        return TupleV([StrV(x) for x in getattr(s, name)(sa[0])])
    if name in ("strip", "lower", "upper", "lstrip", "rstrip"):
        return StrV(getattr(s, name)(*sa))
    if name == "split":
        return ListV([StrV(x) for x in s.split(*sa)])
    if name in ("startswith", "endswith"):
        return BoolV(getattr(s, name)(sa[0]))
    if name == "format":
        return StrV("<fmt>")
    if name == "join":
        return StrV(s.join(x.s for x in ev.iterate(args[0], fr, node)))
    if name == "maketrans":
        return h_maketrans(ev, args, kwargs, fr, node)
    if name == "translate":
        return StrV(s.translate(args[0].payload))
    if name == "replace":
        return StrV(s.replace(sa[0], sa[1]))
    if not hasattr("", name):
        from .symeval import Raised
        raise Raised("AttributeError", node, f"str has no attribute {name}")
    ev.unsupported(f"str method {name}", node, fr)


NP_DTYPES = {"float32", "float64", "complex64", "complex128", "int64", "int32", "int16", "int8", "uint8", "uint16", "uint32", "uint64", "bool_", "float16", "longdouble", "clongdouble"}


def can_cast_safe(src, dst):
    """numpy's own casting table (third-party introspection, never pulsarbat)."""
    import numpy as np
    try:
        return bool(np.can_cast(np.dtype(getattr(np, src)), np.dtype(getattr(np, dst)), casting="safe"))
    except Exception:
        return None


VIEW_METHODS = {"reshape", "swapaxes", "transpose", "view", "squeeze", "ravel"}


def num_method(ev, x: Num, name, args, kwargs, fr, node):
    out = _num_method(ev, x, name, args, kwargs, fr, node)
    if x.tag == "negzero" and isinstance(out, Num) and out is not x and out.tag is None and out.expr == 0 \
            and name in ("to", "to_value", "astype", "copy", "reshape", "ravel", "squeeze", "flatten", "view", "item", "decompose"):
        out.tag = "negzero"        # the sign of a floating-point zero survives unit conversion, casts between float types and reshaping
    if name in VIEW_METHODS and isinstance(out, Num) and out is not x and out.base is None:
        out.base = x          # NumPy returns a view of x here (whenever it can): writes through it reach x
    return out


def _num_method(ev, x: Num, name, args, kwargs, fr, node):
    from .symeval import Raised
    if name in ("to", "to_value", "isclose") and x.kind in ("number", "array", "bool") and x.tag != "unit":
        raise Raised("AttributeError", node, f"plain number/array has no .{name}")
    if name == "astype" and isinstance(kwargs.get("casting"), StrV) and kwargs["casting"].s == "safe":
        dt = args[0] if args else kwargs.get("dtype")
        if isinstance(dt, ExtV) and isinstance(x.dtype, ExtV):
            a, b = x.dtype.dotted.split(".")[-1].split(":")[0], dt.dotted.split(".")[-1].split(":")[0]
            if a in NP_DTYPES and b in NP_DTYPES:
                ok = can_cast_safe(a, b)
                if ok is False:
                    raise Raised("TypeError", node, f"cannot cast {a} to {b} under casting='safe'")
                if ok is True:
                    return x.like(x.expr, unit=x.unit, dtype=dt)
        if x.dtype is None or (isinstance(x.dtype, ExtV) and x.dtype.dotted.endswith(":unknown")):
            return x.like(x.expr, unit=x.unit, dtype=dt)      # source dtype not tracked: the safe cast is assumed to succeed
        ev.unsupported("astype(casting='safe') between dtypes the evaluator does not know", node, fr)
    if name == "to":
        u_ = unit_of(ev, args[0] if args else kwargs["unit"], node)
        dimension_check(ev, x.expr, u_, f".to({u_})", node)
        return x.like(x.expr, unit=u_, kind="quantity" if x.kind != "time" else "time", cls=x.cls)
    if name == "to_value":
        if args and isinstance(args[0], NoneV):
            args = args[1:] if False else []        # to_value(None): the value in the unit the Quantity is held in
        u_ = unit_of(ev, args[0], node) if args else (x.unit if x.unit is not None else None)
        if u_ is None:
            return num_getattr(ev, x, "value", fr, node)
        dimension_check(ev, x.expr, u_, f".to_value({u_})", node)
        return Num(x.expr / u_, kind="array" if x.shape else "number", shape=x.shape, axes=x.axes)
    if name == "astype":
        dt = args[0] if args else kwargs.get("dtype")
        tn = _dtype_name(dt)
        whole = x.expr.is_integer is True or x.expr.func in (sp.floor, sp.ceiling) or getattr(x.expr.func, "__name__", "") in ("Int", "Round")
        if tn is not None and tn.startswith(("int", "uint")) and not whole \
                and not (_dtype_name(x.dtype) or "").startswith(("int", "uint", "bool")):
            # a cast to an integer type truncates towards zero whatever is not already a whole number
            ev.trace.append(("integer-cast", tn, str(x.expr)[:80], node))
            return x.like(F["Int"](x.expr), unit=x.unit, dtype=dt)
        return x.like(x.expr, unit=x.unit, dtype=dt)
    if name in ("conj", "conjugate"):
        return x.like(sp.conjugate(x.expr), unit=x.unit)
    if name == "round":
        if x.kind == "quantity" and x.unit is not None and x.unit != 1 and x.tag != "unit":
            # a Quantity is rounded in the unit it is held in: (t / dt) with t in minutes and dt in seconds is a dimensionless
            # Quantity in units of "min/s" (scale 60) and rounds to multiples of 60
            u_ = x.unit
            return x.like(round_term(sp.simplify(x.expr / u_)) * u_, unit=u_)
        return x.like(round_term(x.expr), unit=x.unit)
    if name == "copy":
        return x.like(x.expr, unit=x.unit, cls=x.cls, tag=x.tag)        # a new array object (in-place operators on it do not reach x)
    if name in ("min", "max"):
        if not args and not kwargs and (not x.shape or all(d_ == 1 for d_ in x.shape)):
            # a scalar / single-element array: its extremum is the element itself
            return Num(x.expr, kind=x.kind if x.kind != "array" else "number", unit=x.unit, isfloat=x.isfloat)
        mx = nd_materialize(x) if not args and not kwargs else None
        if mx is not None:
            return nd_method(ev, mx, name, [], {}, fr, node)
        fn = "RMin" if name == "min" else "RMax"
        return Num(sp.Function(fn)(x.expr), kind=x.kind if x.kind != "array" else "number", unit=x.unit)
    if name == "compute":
        return x.like(x.expr, backend="numpy", unit=x.unit)
    if name == "persist":
        return x.like(x.expr, unit=x.unit)
    if name == "rechunk":
        # Dask's automatic chunk size is computed by dividing by the array's extents: rechunk(..., "auto", ...) on an array with a
        # zero extent raises ZeroDivisionError (fact about the installed dask.array, confirmed by dask_auto_rechunk_of_empty_raises())
        ch = args[0] if args else kwargs.get("chunks")
        autos = [c for c in (ch.items if isinstance(ch, (TupleV, ListV)) else [ch]) if isinstance(c, StrV) and c.s == "auto"]
        if autos and x.shape and any(sp.sympify(d_) == 0 for d_ in x.shape) and dask_auto_rechunk_of_empty_raises():
            from .symeval import Raised
            raise Raised("ZeroDivisionError", node, "float division by zero (dask auto-chunking of an empty array)",
                         origin=(fr.fi.qualname if fr is not None and getattr(fr, "fi", None) is not None else None))
        return x.like(x.expr, unit=x.unit, backend="dask")
    if name == "reshape":
        shp = args[0] if len(args) == 1 and isinstance(args[0], (TupleV, ListV)) else TupleV(args)
        mx = nd_materialize(x)
        if mx is not None and all(ev.concrete_int(s_) is not None for s_ in shp.items):
            return nd_method(ev, mx, "reshape", [shp], {}, fr, node)
        return reshape(ev, x, shp, fr, node)
    if name == "swapaxes":
        a, b = ev.concrete_int(args[0]), ev.concrete_int(args[1])
        shape = None
        if x.shape is not None:
            shape = list(x.shape)
            shape[a], shape[b] = shape[b], shape[a]
        return Num(F["Swapaxes"](x.expr, a, b), kind=x.kind, shape=shape, backend=x.backend, tag=x.tag, dtype=x.dtype)
    if name == "transpose":
        perm = [ev.concrete_int(a) for a in (args[0].items if len(args) == 1 and isinstance(args[0], (TupleV, ListV)) else args)]
        shape = None
        if x.shape is not None and len(perm) == len(x.shape):
            shape = [x.shape[p] for p in perm]
        return Num(F["Transpose"](x.expr, *perm), kind=x.kind, shape=shape, backend=x.backend, tag=x.tag, dtype=x.dtype)
    if name in ("ravel", "flatten") and x.tag == "elemarr":
        # element order matters to the caller (flat indices): keep the flattening order in the term
        o = kwargs.get("order", args[0] if args else StrV("C"))
        if not isinstance(o, StrV):
            ev.unsupported("ravel/flatten with a computed order", node, fr)
        size = sp.Mul(*x.shape) if x.shape else sp.Integer(1)
        return Num(F["Ravel"](x.expr, sp.Symbol("order_" + o.s)), kind=x.kind, shape=(size,), tag="elemarr", dtype=x.dtype)
    if name == "squeeze" and x.tag == "elemarr" and x.shape is not None and (args or "axis" in kwargs):
        ax = ev.concrete_int(kwargs.get("axis", args[0] if args else None))
        if ax is not None:
            shp = [d_ for i, d_ in enumerate(x.shape) if i != ax % len(x.shape)]
            return Num(F["Squeeze"](x.expr, sp.Integer(ax % len(x.shape))), kind="array", shape=shp, tag=x.tag, dtype=x.dtype, backend=x.backend)
    if name in ("ravel", "flatten", "squeeze", "view", "item", "tolist"):
        return x
    if name == "isclose":
        other = args[0]
        atol = args[1] if len(args) > 1 else kwargs.get("atol")
        try:
            d = sp.simplify((x.expr - other.expr) * UNITS["Hz"])
            tol = sp.simplify(atol.expr * UNITS["Hz"]) if isinstance(atol, Num) else None
            if d.is_number and d.is_real and tol is not None and tol.is_number:
                return BoolV(bool(abs(d) <= tol))
        except Exception:
            pass
        return CondV(sp.Ne(F["TClose"](x.expr, other.expr, *(a.expr for a in args[1:])), 0))
    if name == "__array_ufunc__":
        # falling back to astropy's Quantity machinery: a single-double result
        ev.trace.append(("fallback", [str(a)[:60] for a in args[:2]], node))
        exprs = [a.expr if isinstance(a, Num) else sp.Symbol("obj") for a in args[2:]]
        return Num(sp.Function("QuantityFallback")(*exprs), kind="quantity", tag="single-double")
    if name == "indices" or name == "index":
        ev.unsupported(f"method {name} on a number", node, fr)
    if name == "is_integer":
        return BoolV(bool(x.expr.is_integer))
    if name == "sum":
        return Num(sp.Function("RSum")(x.expr), kind="number")
    if name == "decompose":
        return x
    if name == "argmin" or name == "argmax":
        return Num(sp.Function("R" + name)(x.expr))
    if name == "tobytes":
        return OpaqueV("bytes", payload=("num", str(x.expr), str(x.unit) if getattr(x, "unit", None) is not None else None))
    ev.unsupported(f"method .{name}() on a numeric term", node, fr)


def nd_method(ev, x: NdArr, name, args, kwargs, fr, node):
    if name in ("any", "all") and not args and not kwargs:
        vals = []
        for e in x.items:
            t = ev.truth(e, fr, node)
            if t not in (True, False):
                ev.unsupported(f"method .{name}() on an explicit array with undecided elements", node, fr)
            vals.append(t)
        return np_bool(any(vals) if name == "any" else all(vals))
    if name == "astype":
        out = NdArr(x.shape, list(x.items))
        out.dtype = args[0] if args else kwargs.get("dtype")
        if isinstance(out.dtype, ExtV) and out.dtype.dotted in ("builtins.bool", "numpy.bool_", "numpy.bool"):
            # a cast to bool maps every element to its truth value (1 -> True, 0 -> False): the result is a mask, not an index list
            conv = []
            for e in x.items:
                if isinstance(e, BoolV):
                    conv.append(e)
                elif isinstance(e, Num) and e.expr.is_number:
                    conv.append(BoolV(bool(e.expr != 0)))
                else:
                    conv = None
                    break
            if conv is not None:
                out = NdArr(x.shape, conv)
                out.dtype = ExtV("numpy.bool_")
        return out
    if name in ("to", "to_value"):
        return x.map(lambda e: num_method(ev, e, name, args, kwargs, fr, node))
    if name == "round":
        return x.map(lambda e: num_method(ev, e, "round", [], {}, fr, node))
    if name in ("copy", "conj"):
        return x.map(lambda e: num_method(ev, e, name, [], {}, fr, node)) if name == "conj" else NdArr(x.shape, x.items)
    if name == "reshape":
        shp = args[0] if len(args) == 1 and isinstance(args[0], (TupleV, ListV)) else TupleV(args)
        dims = [ev.concrete_int(s) for s in shp.items]
        n = len(x.items)
        if -1 in dims:
            known = 1
            for d in dims:
                if d != -1:
                    known *= d
            dims[dims.index(-1)] = n // known
        out = NdArr(dims, x.items)
        out.dtype = getattr(x, "dtype", None)
        return out
    if name in ("min", "max"):
        fn = sp.Min if name == "min" else sp.Max
        return Num(fn(*[e.expr for e in x.items]))
    if name == "swapaxes":
        a, b = ev.concrete_int(args[0]) % x.ndim, ev.concrete_int(args[1]) % x.ndim
        order = list(range(x.ndim))
        order[a], order[b] = order[b], order[a]
        return nd_permute(x, order)
    if name == "transpose":
        perm = [ev.concrete_int(a) for a in (args[0].items if len(args) == 1 and isinstance(args[0], (TupleV, ListV)) else args)]
        return nd_permute(x, perm or list(reversed(range(x.ndim))))
    if name in ("compute", "persist", "rechunk", "view", "ravel"):
        return x
    if name == "tobytes":
        return OpaqueV("bytes", payload=("nd", tuple(x.shape), tuple(str(getattr(e, "expr", e)) for e in x.items)))
    ev.unsupported(f"method .{name}() on an explicit array", node, fr)


def reshape(ev, x: Num, shp, fr, node):
    dims = [s.expr if isinstance(s, Num) else None for s in shp.items]
    if any(d is None for d in dims):
        ev.unsupported("reshape with non-numeric dimension", node, fr)
    shape = None
    if x.shape is not None:
        total = sp.Mul(*x.shape)
        if any(d == -1 for d in dims):
            known = sp.Mul(*[d for d in dims if d != -1])
            dims = [sp.simplify(total / known) if d == -1 else d for d in dims]
        shape = dims
    return Num(F["Reshape"](x.expr, *[d for d in (shape or dims)]), kind=x.kind, shape=shape, backend=x.backend,
               tag=x.tag, dtype=x.dtype)


def _is_mask(idx):
    return isinstance(idx, NdArr) and idx.items and all(isinstance(b, BoolV) for b in idx.items)


def _fancy_offsets(ev, x: NdArr, idx):
    """A tuple of equally long 1-d integer index arrays for the leading axes (what np.nonzero / np.where(cond) return), or one
    such array: (flat offsets selected in order, shape of the selection); for fewer index arrays than axes every selected
    position stands for the whole trailing block.  None if idx is not of that form."""
    items = idx.items if isinstance(idx, TupleV) else [idx]
    if not items or not all(isinstance(i, NdArr) and i.ndim == 1 and all(isinstance(e, Num) and e.expr.is_Integer for e in i.items) for i in items):
        return None
    if len(items) > x.ndim or len({len(i.items) for i in items}) != 1:
        return None
    strides, acc = [], 1
    for s_ in reversed(x.shape):
        strides.insert(0, acc)
        acc *= s_
    import itertools
    trailing = x.shape[len(items):]
    tail = [sum(c * st for c, st in zip(combo, strides[len(items):])) for combo in itertools.product(*[range(k) for k in trailing])]
    offs = []
    for k in range(len(items[0].items)):
        off = 0
        for ax, it in enumerate(items):
            v = int(it.items[k].expr)
            if v < 0:
                v += x.shape[ax]
            if not 0 <= v < x.shape[ax]:
                from .symeval import Raised
                raise Raised("IndexError", None, "index out of bounds")
            off += v * strides[ax]
        offs.extend(off + t for t in tail)
    return offs, (len(items[0].items),) + tuple(trailing)


def h_nonzero(ev, args, kwargs, fr, node, flat=False):
    x = args[0]
    if isinstance(x, NdArr) and all(isinstance(e, BoolV) for e in x.items):
        import itertools
        hits = [c for c, e in zip(itertools.product(*[range(k) for k in x.shape]), x.items) if e.b]
        if flat:
            return NdArr((len(hits),), [Num(i) for i, e in enumerate(x.items) if e.b])
        return TupleV([NdArr((len(hits),), [Num(c[ax]) for c in hits]) for ax in range(x.ndim)])
    ev.unsupported("np.nonzero of a mask that is not explicit", node, fr)


def nd_getitem(ev, x: NdArr, idx, fr, node):
    from .symeval import Raised
    fo = _fancy_offsets(ev, x, idx)
    if fo is not None:
        offs, shp_ = fo
        out = NdArr(shp_, [x.items[o] for o in offs])
        out.dtype = getattr(x, "dtype", None)
        return out
    if _is_mask(idx) and idx.shape == x.shape:
        sel = [v for v, b in zip(x.items, idx.items) if b.b]
        out = NdArr((len(sel),), sel)
        out.dtype = getattr(x, "dtype", None)
        return out
    items = _norm_index(ev, idx)
    import itertools
    # build selection per axis
    sel = []          # per source axis: list of indices ; per output: keep axis?
    out_shape = []
    pos = 0
    plan = []         # ('new',) | ('ax', pos, indices, keep)
    for it in items:
        if isinstance(it, NoneV):
            plan.append(("new",))
            continue
        if pos >= x.ndim:
            raise Raised("IndexError", node, "too many indices for array")
        n = x.shape[pos]
        if isinstance(it, SliceV):
            g = lambda v: None if isinstance(v, NoneV) else ev.concrete_int(v)  # noqa: E731
            rng = list(range(*slice(g(it.start), g(it.stop), g(it.step)).indices(n)))
            plan.append(("ax", pos, rng, True))
        else:
            k = ev.concrete_int(it)
            if k is None:
                ev.unsupported("symbolic index into explicit array", node, fr)
            if k < 0:
                k += n
            if not 0 <= k < n:
                raise Raised("IndexError", node)
            plan.append(("ax", pos, [k], False))
        pos += 1
    for p in range(pos, x.ndim):
        plan.append(("ax", p, list(range(x.shape[p])), True))
    axes_lists = [p[2] for p in plan if p[0] == "ax"]
    strides = []
    acc = 1
    for s in reversed(x.shape):
        strides.insert(0, acc)
        acc *= s
    out_items = []
    for combo in itertools.product(*axes_lists):
        off = sum(c * st for c, st in zip(combo, strides))
        out_items.append(x.items[off])
    for p in plan:
        if p[0] == "new":
            out_shape.append(1)
        elif p[3]:
            out_shape.append(len(p[2]))
    if not out_shape:
        return out_items[0]
    res = NdArr(out_shape, out_items)
    res.dtype = getattr(x, "dtype", None)
    return res


def nd_lines(x: NdArr, axis):
    """Yield (list of flat offsets along `axis`) for every line of the array."""
    import itertools
    axis %= x.ndim
    strides, acc = [], 1
    for s_ in reversed(x.shape):
        strides.insert(0, acc)
        acc *= s_
    others = [range(n) if i != axis else [0] for i, n in enumerate(x.shape)]
    for combo in itertools.product(*others):
        base = sum(c * st for c, st in zip(combo, strides))
        yield [base + k * strides[axis] for k in range(x.shape[axis])]


def nd_dft(ev, x: NdArr, axis, n, inverse):
    """Exact DFT of an explicit array along one axis (scipy convention: forward unscaled, inverse 1/n)."""
    axis %= x.ndim
    m = x.shape[axis]
    n = m if n is None else n
    new_shape = list(x.shape)
    new_shape[axis] = n
    out = NdArr(new_shape, [Num(0)] * (len(x.items) // m * n))
    sign = 1 if inverse else -1
    w = [sp.exp(sign * 2 * sp.pi * sp.I * sp.Rational(k, n)) for k in range(n)]
    for src, dst in zip(nd_lines(x, axis), nd_lines(out, axis)):
        vals = [x.items[o].expr for o in src][:n]
        for k in range(n):
            acc = sp.Integer(0)
            for j, v in enumerate(vals):
                acc += v * w[(j * k) % n]
            out.items[dst[k]] = Num(sp.expand(acc / n) if inverse else sp.expand(acc))
    return out


def nd_roll(x: NdArr, axis, shift):
    axis %= x.ndim
    out = NdArr(x.shape, list(x.items))
    n = x.shape[axis]
    for line in nd_lines(x, axis):
        vals = [x.items[o] for o in line]
        for k in range(n):
            out.items[line[(k + shift) % n]] = vals[k]
    return out


def nd_permute(x: NdArr, order):
    import itertools
    new_shape = [x.shape[i] for i in order]
    strides, acc = [], 1
    for s_ in reversed(x.shape):
        strides.insert(0, acc)
        acc *= s_
    items = []
    for combo in itertools.product(*[range(n) for n in new_shape]):
        src = [0] * x.ndim
        for pos, ax in enumerate(order):
            src[ax] = combo[pos]
        items.append(x.items[sum(c * st for c, st in zip(src, strides))])
    return NdArr(new_shape, items)


def nd_setitem(ev, x: NdArr, idx, v, fr, node):
    """Basic-index store into an explicit array (ints and slices; scalar or same-shape value)."""
    import itertools
    if _is_mask(idx) and idx.shape == x.shape:
        ev.trace.append(("nd-store", x, idx, v, node))
        pos = [i for i, b in enumerate(idx.items) if b.b]
        if isinstance(v, NdArr):
            if len(v.items) != len(pos):
                from .symeval import Raised
                raise Raised("ValueError", node, "shape mismatch in masked assignment")
            for i, val in zip(pos, v.items):
                x.items[i] = val
        else:
            for i in pos:
                x.items[i] = v
        return
    fo = _fancy_offsets(ev, x, idx)
    if fo is not None:
        offs, shp_ = fo
        ev.trace.append(("nd-store", x, idx, v, node))
        if isinstance(v, NdArr):
            if len(v.items) == 1:
                v = v.items[0]
            elif len(shp_) > 1 and len(v.items) * (len(offs) // shp_[0]) == len(offs) and v.shape == (shp_[0],):
                raise_value_error(ev, f"shape mismatch: value array of shape {v.shape} could not be broadcast to indexing result of shape {shp_}", node, fr)
        if isinstance(v, NdArr):
            if len(v.items) != len(offs):
                from .symeval import Raised
                raise Raised("ValueError", node, "shape mismatch in indexed assignment")
            for o, val in zip(offs, v.items):
                x.items[o] = val
        else:
            for o in offs:
                x.items[o] = v
        return
    items = _norm_index(ev, idx)
    if len(items) > x.ndim:
        from .symeval import Raised
        raise Raised("IndexError", node, "too many indices")
    sel = []
    for ax in range(x.ndim):
        n = x.shape[ax]
        if ax < len(items):
            it = items[ax]
            if isinstance(it, SliceV):
                g = lambda q: None if isinstance(q, NoneV) else ev.concrete_int(q)  # noqa: E731
                for q in (it.start, it.stop, it.step):
                    if not isinstance(q, NoneV) and ev.concrete_int(q) is None:
                        ev.unsupported("symbolic slice store into an explicit array", node, fr)
                sel.append(list(range(*slice(g(it.start), g(it.stop), g(it.step)).indices(n))))
            else:
                k = ev.concrete_int(it)
                if k is None:
                    ev.unsupported("symbolic index store into an explicit array", node, fr)
                if k < 0:
                    k += n
                if not 0 <= k < n:
                    from .symeval import Raised
                    raise Raised("IndexError", node, "index out of bounds")
                sel.append([k])
        else:
            sel.append(list(range(n)))
    strides, acc = [], 1
    for s_ in reversed(x.shape):
        strides.insert(0, acc)
        acc *= s_
    ev.trace.append(("nd-store", x, idx, v, node))
    combos = list(itertools.product(*sel))
    if isinstance(v, NdArr):
        # the value is broadcast against the selected block (axes indexed by an integer are dropped)
        kept = [len(s_) for ax, s_ in enumerate(sel) if not (ax < len(items) and not isinstance(items[ax], SliceV))]
        vs = (1,) * (len(kept) - v.ndim) + tuple(v.shape)
        if len(vs) != len(kept) or any(a_ not in (1, b_) for a_, b_ in zip(vs, kept)):
            from .symeval import Raised
            raise Raised("ValueError", node, f"could not broadcast input array from shape {v.shape} into shape {tuple(kept)}")
        vstr, acc = [], 1
        for s_ in reversed(vs):
            vstr.insert(0, 0 if s_ == 1 else acc)
            acc *= s_
        for kcombo, combo in zip(itertools.product(*[range(k_) for k_ in kept]), combos):
            off = sum(c * st for c, st in zip(combo, strides))
            x.items[off] = v.items[sum(c * st for c, st in zip(kcombo, vstr))]
        return
    for combo in combos:
        off = sum(c * st for c, st in zip(combo, strides))
        x.items[off] = v


def h_moveaxis(ev, args, kwargs, fr, node):
    x = args[0]
    src, dst = ev.concrete_int(args[1]), ev.concrete_int(args[2])
    if isinstance(x, StackV) and x.shape is not None and src is not None and dst is not None:
        nd = len(x.shape)
        if src % nd != x.axis % nd:
            ev.unsupported("np.moveaxis of an axis other than the one holding the explicit components", node, fr)
        order = list(range(nd))
        a_ = order.pop(src % nd)
        order.insert(dst % nd, a_)
        out = StackV(list(x.items), dst % nd, x.backend)
        out.shape = tuple(x.shape[i] for i in order)
        out.dtype = x.dtype
        return out
    if not isinstance(x, Num) or x.shape is None or src is None or dst is None:
        ev.unsupported("np.moveaxis on an array of unknown rank", node, fr)
    order = list(range(len(x.shape)))
    a = order.pop(src % len(x.shape))
    order.insert(dst % len(x.shape) if dst >= 0 else len(x.shape) + dst, a)
    shape = [x.shape[i] for i in order]
    return Num(F["Transpose"](x.expr, *order), kind=x.kind, shape=shape, backend=x.backend, tag=x.tag, dtype=x.dtype)


def h_flip(ev, args, kwargs, fr, node):
    x = args[0]
    axis = kwargs.get("axis", args[1] if len(args) > 1 else NONE)
    ax = axis.expr if isinstance(axis, Num) else NONE_S
    return Num(F["Flip"](x.expr, ax), kind=x.kind, shape=x.shape, backend=x.backend, tag=x.tag, dtype=x.dtype)


def h_swapaxes(ev, args, kwargs, fr, node):
    return num_method(ev, args[0], "swapaxes", args[1:], kwargs, fr, node)


# ------------------------------------------------------------------------ external calls
def _lazy(fn):
    """floor/ceiling: evaluate only on numbers (sympy's symbolic evaluation of big arguments is very slow)."""
    def g(x):
        return fn(x) if x.is_number else fn(x, evaluate=False)
    return g


def _np_unary(fn, real=False):
    def h(ev, args, kwargs, fr, node):
        x = args[0]
        if isinstance(x, NdArr):
            return x.map(lambda e: h(ev, [e], kwargs, fr, node))
        if isinstance(x, BoolV):
            x = Num(int(x.b))
        if not isinstance(x, Num):
            ev.unsupported(f"numeric function of {x!r}", node, fr)
        if "dtype" in kwargs:
            ev.trace.append(("exp-dtype", norm(node) if node is not None else "", kwargs["dtype"]))
        elif fn is sp.exp and isinstance(x.dtype, ExtV) and x.dtype.dotted in ("numpy.float32", "numpy.complex64", "numpy.float16") \
                and any(getattr(s_, "name", "").rstrip("0123456789") in ("n", "kbin", "krbin") for s_ in x.expr.free_symbols):
            # a ramp (index-dependent exponent) held in single precision: the argument n*pi/2 is rounded to ~1e-7 relative BEFORE
            # the exponential, an error that grows with the index
            ev.trace.append(("exp-dtype", norm(node) if node is not None else "", x.dtype))
        return x.like(fn(x.expr), dtype=real_dtype(x.dtype) if real else x.dtype)
    return h


def nd_pairs(ev, a, b, node, fr):
    """Broadcast two explicit arrays (or an explicit array and a scalar / enumerable Num array): (shape, [(x, y)])."""
    import itertools
    if not isinstance(a, NdArr):
        a = nd_materialize(a) or NdArr((), [a])
    if not isinstance(b, NdArr):
        b = nd_materialize(b) or NdArr((), [b])
    nd = max(a.ndim, b.ndim)
    sa = (1,) * (nd - a.ndim) + a.shape
    sb = (1,) * (nd - b.ndim) + b.shape
    shape = []
    for x, y in zip(sa, sb):
        if x == y or y == 1:
            shape.append(x)
        elif x == 1:
            shape.append(y)
        else:
            ev.trace.append(("broadcast-mismatch", sa, sb, node))
            raise_value_error(ev, f"operands could not be broadcast together with shapes {a.shape} {b.shape}", node, fr)

    def strides(sh):
        st, acc = [], 1
        for s_ in reversed(sh):
            st.insert(0, 0 if s_ == 1 else acc)
            acc *= s_
        return st
    sta, stb = strides(sa), strides(sb)
    pairs = []
    for combo in itertools.product(*[range(s_) for s_ in shape]):
        pairs.append((a.items[sum(c * t for c, t in zip(combo, sta))], b.items[sum(c * t for c, t in zip(combo, stb))]))
    return tuple(shape), pairs


def _elementwise2(h2):
    """A two-argument numpy function applied elementwise when an operand is an explicit array."""
    def h(ev, args, kwargs, fr, node):
        if len(args) == 2 and (isinstance(args[0], NdArr) or isinstance(args[1], NdArr)):
            shape, pairs = nd_pairs(ev, args[0], args[1], node, fr)
            return NdArr(shape, [h2(ev, [x, y], kwargs, fr, node) for x, y in pairs])
        return h2(ev, args, kwargs, fr, node)
    return h


def _minmax(fn):
    def h(ev, args, kwargs, fr, node):
        if (len(args) >= 2 and isinstance(args[0], Num) and ("keepdims" in kwargs or len(args) == 2 and isinstance(args[1], NoneV))) \
                or (len(args) == 1 and isinstance(args[0], Num) and ("axis" in kwargs or "keepdims" in kwargs)):
            x = args[0]
            return Num(sp.Function("RMin" if fn is sp.Min else "RMax")(x.expr), kind=x.kind, unit=x.unit)
        vals = args
        if len(args) == 1:
            if isinstance(args[0], NdArr):
                vals = args[0].items
            elif isinstance(args[0], Num):
                # reduction over an array term
                x = args[0]
                if x.shape is None or len(x.shape) == 0:
                    return x
                if len(x.shape) == 1 and x.shape[0].is_number and int(x.shape[0]) <= 32 and x.axes[0] is not None:
                    return Num(fn(*[x.expr.subs(x.axes[0], i) for i in range(int(x.shape[0]))], evaluate=False))
                return Num(sp.Function("RMin" if fn is sp.Min else "RMax")(x.expr), kind="number")
            else:
                vals = ev.iterate(args[0], fr, node)
        es = []
        for v in vals:
            if isinstance(v, BoolV):
                v = Num(int(v.b))
            if not isinstance(v, Num):
                ev.unsupported(f"min/max over {v!r}", node, fr)
            es.append(v.expr)
        kinds = {getattr(v, "kind", "number") for v in vals if isinstance(v, Num)}
        kind = kinds.pop() if len(kinds) == 1 else "number"
        if all(e.is_number for e in es):
            return Num(fn(*es), kind=kind)
        if kind in ("time", "quantity") and len(es) <= 4:
            try:
                scaled = [sp.simplify(e * UNITS["Hz"]) for e in es]
                if all(x.is_number for x in scaled):
                    return Num(fn(*scaled) / UNITS["Hz"], kind=kind)
            except Exception:
                pass
        return Num(fn(*es, evaluate=False), kind=kind)
    return h


def _sort_key(ev, v, node, fr):
    if isinstance(v, StrV):
        return (0, v.s)
    if isinstance(v, Num):
        e = sp.simplify(v.expr * UNITS["Hz"]) if v.kind == "time" or (v.expr.free_symbols & UNIT_SYMS) else v.expr
        if e.is_number and e.is_real:
            return (1, sp.Rational(e) if e.is_Rational else float(e))
    if isinstance(v, TupleV):
        return (2, tuple(_sort_key(ev, x, node, fr) for x in v.items))
    ev.unsupported("sorting values whose order is not decided", node, fr)


def h_sorted(ev, args, kwargs, fr, node):
    items = ev.iterate(args[0], fr, node)
    keyf = kwargs.get("key")
    rev = kwargs.get("reverse")
    keyed = []
    for it in items:
        kv = ev.apply(keyf, [it], {}, fr, node) if keyf is not None and not isinstance(keyf, NoneV) else it
        keyed.append((_sort_key(ev, kv, node, fr), it))
    idx = sorted(range(len(keyed)), key=lambda i: keyed[i][0], reverse=bool(isinstance(rev, BoolV) and rev.b))
    return ListV([keyed[i][1] for i in idx])


_DASK_EMPTY_AUTO = []


def dask_auto_rechunk_of_empty_raises():
    """Introspection of the installed third-party library (never of pulsarbat): does dask.array refuse to auto-chunk an empty array?"""
    if not _DASK_EMPTY_AUTO:
        try:
            import dask.array as da
            try:
                da.zeros((0, 2), chunks=(-1, -1)).rechunk((-1, "auto"))
                _DASK_EMPTY_AUTO.append(False)
            except ZeroDivisionError:
                _DASK_EMPTY_AUTO.append(True)
        except Exception:
            _DASK_EMPTY_AUTO.append(False)
    return _DASK_EMPTY_AUTO[0]


def h_finfo(ev, args, kwargs, fr, node):
    """np.finfo(float / np.float64 / np.float32 ...): the machine parameters used by the package (eps, tiny, max, resolution)."""
    x = args[0] if args else ExtV("builtins.float")
    nm = _dtype_name(x) if not (isinstance(x, ExtV) and x.dotted in ("builtins.float",)) else "float64"
    if isinstance(x, Num):
        nm = _dtype_name(x.dtype) or "float64"
    if nm in ("complex128",):
        nm = "float64"
    if nm in ("complex64",):
        nm = "float32"
    table = {"float64": (sp.Rational(1, 2**52), sp.Rational(1, 2**1022), (2 - sp.Rational(1, 2**52)) * 2**1023),
             "float32": (sp.Rational(1, 2**23), sp.Rational(1, 2**126), (2 - sp.Rational(1, 2**23)) * 2**127),
             "float16": (sp.Rational(1, 2**10), sp.Rational(1, 2**14), sp.Integer(65504))}
    if nm not in table:
        ev.unsupported(f"np.finfo of {x!r}", node, fr)
    eps, tiny, mx = table[nm]
    o = OpaqueV("finfo", {"eps": Num(eps, isfloat=True), "tiny": Num(tiny, isfloat=True), "smallest_normal": Num(tiny, isfloat=True),
                          "max": Num(mx, isfloat=True), "min": Num(-mx, isfloat=True), "epsneg": Num(eps / 2, isfloat=True),
                          "dtype": ExtV("numpy." + nm)})
    return o


def h_asdict(ev, args, kwargs, fr, node):
    """dataclasses.asdict: a NEW dict of the instance's fields (nested dataclasses/containers are not followed: the package's
    entries hold scalars and one polynomial)."""
    x = args[0]
    if not isinstance(x, ObjV):
        raise Raised("TypeError", node, "asdict() should be called on dataclass instances")
    d = DictV()
    for k_, v in x.attrs.items():
        if not k_.startswith("__"):
            d.d[k_] = v
    return d


def h_itemgetter(ev, args, kwargs, fr, node):
    keys = list(args)

    def get(ev2, a, k, fr2, node2):
        vals = [ev2.getitem(a[0], key, fr2, node2) for key in keys]
        return vals[0] if len(vals) == 1 else TupleV(vals)
    return PyFuncV(get, "itemgetter")


def h_attrgetter(ev, args, kwargs, fr, node):
    names = [a.s for a in args if isinstance(a, StrV)]
    if len(names) != len(args) or any("." in n_ for n_ in names):
        ev.unsupported("operator.attrgetter with computed or dotted names", node, fr)

    def get(ev2, a, k, fr2, node2):
        vals = [ev2.getattr(a[0], n_, fr2, node2) for n_ in names]
        return vals[0] if len(vals) == 1 else TupleV(vals)
    return PyFuncV(get, "attrgetter")


def h_maketrans(ev, args, kwargs, fr, node):
    if len(args) == 1 and isinstance(args[0], DictV):
        d = {}
        for k_, v in args[0].d.items():
            d[k_] = v.s if isinstance(v, StrV) else (None if isinstance(v, NoneV) else ev.concrete_int(v))
        return OpaqueV("transtable", str.maketrans(d))
    return OpaqueV("transtable", str.maketrans(*[x.s for x in args]))


def h_str(ev, args, kwargs, fr, node):
    x = args[0]
    if isinstance(x, StrV):
        return x
    if isinstance(x, Num) and x.expr.is_number and x.expr.is_real:
        if x.expr.is_Integer and not x.isfloat:
            return StrV(str(int(x.expr)))
        t = py_str_of_number(x.expr)
        if t is not None:
            return StrV(t)
        ev.unsupported("str() of a number whose float repr is not its exact decimal expansion", node, fr)
    return StrV("<str>")


def h_vectorize(ev, args, kwargs, fr, node):
    func = args[0]

    def apply(ev2, a, k, fr2, node2):
        return OpaqueV("array0d", ev2.apply(func, a, k, fr2, node2))
    return PyFuncV(apply, "vectorized")


def token_number(s_, integer=False):
    """Numeric value of a text token.  Tokens written as @NAME stand for a symbolic number (used by rule modules to keep
    file contents symbolic); '0.@NAME' is a symbolic fraction in [0, 1), '0@NAME' a symbolic non-negative integer."""
    t = s_.strip()
    if "@" in t:
        head, name = t.split("@", 1)
        if head in ("", "+"):
            return sp.Symbol(name, real=True) if not integer else sp.Symbol(name, integer=True)
        if head == "-":
            return -sp.Symbol(name, real=True)
        if head == "0.":
            return sp.Symbol(name + "_frac", real=True, nonnegative=True)
        if head == "0":
            return sp.Symbol(name, integer=True, nonnegative=True)
        raise ValueError(t)
    if integer:
        return sp.Integer(int(t))
    return sp.Rational(t) if "e" not in t.lower() and "inf" not in t.lower() and "nan" not in t.lower() else sp.Rational(*float_ratio(t))


def float_ratio(t):
    import decimal
    d = decimal.Decimal(t)          # exact decimal value of the token (not the binary float)
    from fractions import Fraction
    f = Fraction(d)
    return f.numerator, f.denominator


def h_len(ev, args, kwargs, fr, node):
    x = args[0]
    if isinstance(x, (TupleV, ListV, SetV)):
        return Num(len(x.items))
    if isinstance(x, DictV):
        return Num(len(x.d))
    if isinstance(x, StrV):
        return Num(len(x.s))
    if isinstance(x, NdArr):
        return Num(x.shape[0])
    if isinstance(x, Num):
        if x.shape is None or len(x.shape) == 0:
            from .symeval import Raised
            raise Raised("TypeError", node, "len() of unsized object")
        return Num(x.shape[0])
    if isinstance(x, ObjV):
        m = x.cls.find_method("__len__")
        if m is not None:
            return ev.call(m, [], {}, self_val=x, depth=fr.depth + 1)
    ev.unsupported(f"len of {x!r}", node, fr)


def h_int(ev, args, kwargs, fr, node):
    x = args[0]
    if isinstance(x, BoolV):
        return Num(int(x.b))
    if isinstance(x, StrV):
        try:
            return Num(token_number(x.s, integer=True), tag="int")
        except ValueError:
            from .symeval import Raised
            raise Raised("ValueError", node)
    if isinstance(x, Num):
        e = x.expr
        if e.is_number:
            return Num(sp.Integer(int(e)), tag="int")
        if e.is_integer:
            return Num(e, tag="int")
        # int() truncates towards zero
        from .sign import is_nonneg, facts_nonneg
        known = facts_nonneg(fr.facts) if fr is not None else set()
        if is_nonneg(e, known):
            return Num(sp.floor(e, evaluate=False))
        return Num(mk_ite(e >= 0, sp.floor(e, evaluate=False), sp.ceiling(e, evaluate=False)))
    ev.unsupported(f"int() of {x!r}", node, fr)


def h_float(ev, args, kwargs, fr, node):
    x = args[0]
    if isinstance(x, Num):
        o_ = x.like(x.expr, isfloat=True, unit=x.unit)
        if x.tag == "negzero" and o_.tag is None:
            o_.tag = "negzero"
        return o_
    if isinstance(x, StrV):
        from .symeval import Raised
        try:
            float(x.s)              # the grammar of float(str) is Python's own: blanks only at the ends, one sign, one point, one exponent
        except ValueError:
            if "@" not in x.s:          # (symbolic number tokens of the polyco text model are not literals)
                raise Raised("ValueError", node, f"could not convert string to float: {x.s!r}")
        low = x.s.strip().lower()
        if low.lstrip("+-") in ("inf", "infinity"):
            return Num(-sp.oo if low.startswith("-") else sp.oo, isfloat=True)
        if low.lstrip("+-") == "nan":
            return Num(sp.nan, isfloat=True)
        try:
            v = token_number(x.s.strip())
        except Exception:
            raise Raised("ValueError", node, f"could not convert string to float: {x.s!r}")
        if v == 0 and x.s.strip().startswith("-"):
            return Num(0, isfloat=True, tag="negzero")      # float("-0") is the negative zero: it prints with its sign
        if getattr(ev, "float_fold", False) and sp.sympify(v).is_Rational:
            v = round_to_double(sp.sympify(v))             # float("0.01") is the double nearest to 1/100 (correctly rounded)
        return Num(v, isfloat=True)
    ev.unsupported(f"float({x!r})", node, fr)


def h_index(ev, args, kwargs, fr, node):
    x = args[0]
    if isinstance(x, StrV) or isinstance(x, NoneV):
        from .symeval import Raised
        raise Raised("TypeError", node, "operator.index of non-integer")
    if isinstance(x, Num):
        if x.expr.is_integer is False and x.expr.is_number:
            from .symeval import Raised
            raise Raised("TypeError", node)
        return Num(x.expr, tag="pyint")
    if isinstance(x, BoolV):
        return Num(int(x.b))
    ev.unsupported(f"operator.index of {x!r}", node, fr)


def np_scalar(expr, name="int64"):
    """A NumPy scalar (numpy.int64(3), an element taken out of an integer array, the result of NumPy arithmetic)."""
    return Num(sp.sympify(expr), kind="number", dtype=ExtV("numpy." + name), tag="npscalar")


def np_scalar_kind(v):
    if isinstance(v, Num) and v.tag == "npscalar" and isinstance(v.dtype, ExtV) and v.dtype.dotted.startswith("numpy."):
        return v.dtype.dotted[len("numpy."):]
    return None


def h_isinstance(ev, args, kwargs, fr, node):
    v, t = args
    from .symeval import PhiV
    if isinstance(v, PhiV):
        a_ = h_isinstance(ev, [v.a, t], kwargs, fr, node)
        b_ = h_isinstance(ev, [v.b, t], kwargs, fr, node)
        if isinstance(a_, BoolV) and isinstance(b_, BoolV) and a_.b == b_.b:
            return a_
        return ev.ite(v.cond, a_, b_)
    ts = t.items if isinstance(t, TupleV) else [t]
    rs = [(c, _isinst(ev, v, c, fr, node)) for c in ts]
    if any(r is True for _, r in rs):
        return BoolV(True)
    for c, r in rs:
        if r is None:
            ev.unsupported(f"isinstance({v!r}, {c!r})", node, fr)
    return BoolV(False)


def _isinst(ev, v, c, fr, node):
    from .symeval import PhiV
    if isinstance(c, ClassV):
        if isinstance(v, ObjV):
            return v.cls.is_subclass_of(c.ci.name)
        if isinstance(v, Num) and v.cls is not None:
            return v.cls.is_subclass_of(c.ci.name)
        return False
    if isinstance(c, ExtV):
        d = c.dotted
        if d == "builtins.tuple":
            return isinstance(v, TupleV)
        if d == "builtins.list":
            return isinstance(v, ListV)
        if d == "builtins.dict":
            return isinstance(v, DictV)
        if d == "builtins.slice":
            return isinstance(v, SliceV)
        if d == "builtins.str":
            return isinstance(v, StrV)
        if d == "builtins.bool":
            return isinstance(v, BoolV)
        npk = np_scalar_kind(v)
        if npk is not None:
            # a NumPy scalar: numpy.float64 alone derives from a Python number type (float); numpy integers are
            # numbers.Integral and numpy.integer but not int, the narrower and wider floats are not float
            fam = "int" if npk.startswith(("int", "uint")) else ("float" if npk.startswith(("float", "longdouble")) else "other")
            if d in ("builtins.int", "builtins.bool", "builtins.complex"):
                return False
            if d == "builtins.float":
                return npk == "float64"
            if d in ("numbers.Integral", "numpy.integer"):
                return fam == "int"
            if d in ("numpy.floating",):
                return fam == "float"
            if d in ("numbers.Real", "numbers.Number", "numpy.number", "numpy.generic"):
                return fam in ("int", "float")
        if d in ("numpy.integer", "numpy.floating", "numpy.number", "numpy.generic", "numpy.bool_"):
            # Python numbers, None, strings, containers and the package's own objects are not NumPy scalars
            if isinstance(v, (NoneV, BoolV, StrV, TupleV, ListV, DictV, SliceV, ObjV)):
                return False
            if isinstance(v, Num) and v.kind == "number" and not v.shape and v.dtype is None and v.tag is None:
                return False
        if d in ("numbers.Integral", "numbers.Real", "numbers.Number"):
            if isinstance(v, (NoneV, StrV, TupleV, ListV, DictV, SliceV, ObjV)):
                return False
            if isinstance(v, BoolV):
                return True
            if isinstance(v, Num) and v.kind == "number" and not v.shape and v.dtype is None and v.tag is None:
                return True if d != "numbers.Integral" else (True if v.expr.is_integer is True else (False if v.expr.is_integer is False else None))
        if d == "builtins.int":
            return isinstance(v, BoolV) or (isinstance(v, Num) and v.kind == "number" and v.expr.is_integer is True and not v.shape)
        if d == "builtins.float":
            return isinstance(v, Num) and v.kind == "number" and v.expr.is_integer is not True and not v.shape
        if d in ("astropy.time.Time",):
            return isinstance(v, Num) and v.kind == "time"
        if d in ("astropy.units.Quantity", "astropy.units.quantity.Quantity"):
            return isinstance(v, Num) and v.kind == "quantity"
        if d in ("dask.array.Array", "dask.array.core.Array"):
            if isinstance(v, Num):
                if v.backend is None and v.tag == "data":
                    return None
                return v.backend == "dask"
            return False
        if d == "numpy.ndarray":
            if isinstance(v, ObjV):
                # instances of the package's Quantity/Angle/ndarray subclasses (Phase) are ndarrays
                bases = [b for c_ in v.cls.mro() for b in getattr(c_, "ext_bases", [])]
                return any(b.split(".")[-1] in ("Quantity", "SpecificTypeQuantity", "Angle", "Longitude", "Latitude", "ndarray") for b in bases)
            if isinstance(v, Num) and v.backend == "dask":
                return False          # a Dask array is not an ndarray
            return isinstance(v, (Num, NdArr)) and getattr(v, "kind", None) == "array"
    return None


def h_getattr(ev, args, kwargs, fr, node):
    obj, name = args[0], args[1]
    if not isinstance(name, StrV):
        ev.unsupported("getattr with non-literal name", node, fr)
    from .symeval import Raised
    if isinstance(obj, Num) and obj.kind == "number" and not obj.shape and obj.dtype is None and obj.tag is None \
            and name.s in ("unit", "value", "to", "to_value", "shape", "dtype", "ndim", "data") and len(args) > 2:
        return args[2]        # a plain Python number has none of the Quantity / array attributes: getattr(x, "unit", d) is d
    try:
        return ev.getattr(obj, name.s, fr, node)
    except Raised:
        if len(args) > 2:
            return args[2]
        raise


def h_setattr(ev, args, kwargs, fr, node):
    obj, name, val = args
    if not isinstance(name, StrV):
        ev.unsupported("setattr with a non-literal name", node, fr)
    ev.setattr(obj, name.s, val, fr, node)
    return NONE


def h_hasattr(ev, args, kwargs, fr, node):
    obj, name = args
    if isinstance(obj, ObjV) and isinstance(name, StrV):
        return BoolV(ev.has_attr(obj, name.s))
    if isinstance(name, StrV) and name.s == "readline":
        return BoolV(isinstance(obj, OpaqueV) and obj.what in ("handle", "textfile"))
    ev.unsupported(f"hasattr({obj!r}, {name!r})", node, fr)


def h_type(ev, args, kwargs, fr, node):
    x = args[0]
    if isinstance(x, ObjV):
        return ClassV(x.cls)
    if isinstance(x, BoolV):
        return ExtV("builtins.bool")
    if isinstance(x, StrV):
        return ExtV("builtins.str")
    if isinstance(x, Num) and x.cls is not None:
        return ClassV(x.cls)
    if np_scalar_kind(x) is not None:
        return x.dtype
    if isinstance(x, Num) and x.kind == "number" and not x.shape and x.dtype is None and x.expr.is_integer is not None:
        return ExtV("builtins.int" if x.expr.is_integer else "builtins.float")
    if isinstance(x, Num):
        return ExtV("type:" + x.kind)
    if isinstance(x, (NdArr, StackV)):
        return ExtV("numpy.ndarray")
    if isinstance(x, (TupleV, ListV, DictV)):
        return ExtV("builtins." + {TupleV: "tuple", ListV: "list", DictV: "dict"}[type(x)])
    if isinstance(x, NoneV):
        return ExtV("builtins.NoneType")
    ev.unsupported(f"type({x!r})", node, fr)


def h_issubclass(ev, args, kwargs, fr, node):
    a, b = args
    if isinstance(a, ClassV) and isinstance(b, ClassV):
        return BoolV(a.ci.is_subclass_of(b.ci.name))
    if isinstance(a, ExtV) and isinstance(b, ClassV):
        return BoolV(False)
    ev.unsupported(f"issubclass({a!r}, {b!r})", node, fr)


def h_signature(ev, args, kwargs, fr, node):
    c = args[0]
    if not isinstance(c, ClassV):
        ev.unsupported("inspect.signature of a non-class", node, fr)
    init = c.ci.init()
    params = []
    if init is not None:
        dfl = init.defaults()
        kinds = {"posonly": "POSITIONAL_ONLY", "pos_or_kw": "POSITIONAL_OR_KEYWORD", "kwonly": "KEYWORD_ONLY",
                 "vararg": "VAR_POSITIONAL", "kwarg": "VAR_KEYWORD"}
        for p, k in init.params()[1:]:
            params.append(SigParamV(p, kinds[k], p in dfl))
    return SignatureV(params)


def h_tuple(ev, args, kwargs, fr, node):
    if not args:
        return TupleV([])
    return TupleV(ev.iterate(args[0], fr, node))


def h_list(ev, args, kwargs, fr, node):
    if not args:
        return ListV([])
    return ListV(ev.iterate(args[0], fr, node))


def h_dict(ev, args, kwargs, fr, node):
    d = DictV()
    if args:
        a = args[0]
        if isinstance(a, DictV):
            d.d.update(a.d)
        elif isinstance(a, (ListV, TupleV)):
            for kv in a.items:
                k, v = ev.iterate(kv, fr, node)
                d.d[ev.key(k)] = v
        elif isinstance(a, OpaqueV) and a.what == "meta":
            return a
        else:
            from .symeval import Raised
            raise Raised("TypeError", node, "dict() of a non-mapping")
    d.d.update(kwargs)
    return d


def h_range(ev, args, kwargs, fr, node):
    ks = [ev.concrete_int(a) for a in args]
    if any(k is None for k in ks):
        ev.unsupported("range with symbolic bounds", node, fr)
    return ListV([Num(i) for i in range(*ks)])


def h_zip(ev, args, kwargs, fr, node):
    seqs = [ev.iterate(a, fr, node) for a in args]
    return ListV([TupleV(list(t)) for t in zip(*seqs)])


def h_enumerate(ev, args, kwargs, fr, node):
    return ListV([TupleV([Num(i), x]) for i, x in enumerate(ev.iterate(args[0], fr, node))])


def h_all(ev, args, kwargs, fr, node, any_=False):
    conds = []
    for x in ev.iterate(args[0], fr, node):
        t = ev.truth(x, fr, node)
        if t is True:
            if any_:
                return BoolV(True)
            continue
        if t is False:
            if not any_:
                return BoolV(False)
            continue
        conds.append(t)
    if not conds:
        return BoolV(not any_)
    return CondV(sp.Or(*conds) if any_ else sp.And(*conds))


def h_slice(ev, args, kwargs, fr, node):
    if len(args) == 1:
        return SliceV(NONE, args[0], NONE)
    a = list(args) + [NONE] * (3 - len(args))
    return SliceV(*a[:3])


def h_arange(ev, args, kwargs, fr, node, backend=None):
    if len(args) != 1:
        ev.unsupported("arange with start/step", node, fr)
    n = args[0].expr
    i = ev.new_index("n", n)
    dt = kwargs.get("dtype")
    return Num(i, kind="array", shape=(n,), axes=(i,), backend=backend, dtype=dt if isinstance(dt, ExtV) else ExtV("numpy.int64"))


def h_fftfreq(ev, args, kwargs, fr, node, backend=None):
    n = args[0].expr
    d = args[1] if len(args) > 1 else kwargs.get("d", Num(1))
    kb = sp.Symbol("kbin", integer=True)
    ev.index_len[kb] = n
    kind = "quantity" if d.kind == "quantity" else "array"
    if n == 1:
        return Num(0 / d.expr, kind=kind, shape=(sp.Integer(1),), axes=(None,), backend=backend)    # the single bin is DC
    return Num(kb / (n * d.expr), kind=kind, shape=(n,), axes=(kb,), backend=backend)


def h_rfftfreq(ev, args, kwargs, fr, node, backend=None):
    n = args[0].expr
    d = args[1] if len(args) > 1 else kwargs.get("d", Num(1))
    kb = sp.Symbol("krbin", integer=True, nonnegative=True)
    m = sp.floor(n / 2) + 1
    ev.index_len[kb] = m
    return Num(kb / (n * d.expr), kind="quantity" if d.kind == "quantity" else "array", shape=(m,), axes=(kb,), backend=backend)


def h_isinf(ev, args, kwargs, fr, node):
    x = args[0]
    if isinstance(x, NdArr):
        return x.map(lambda e: h_isinf(ev, [e], kwargs, fr, node))
    if not isinstance(x, Num):
        ev.unsupported(f"isinf({x!r})", node, fr)
    e = sp.sympify(x.expr)
    if e.has(sp.oo, -sp.oo, sp.zoo):
        return BoolV(True)
    if e.is_finite or all(getattr(s_, "is_finite", None) for s_ in e.free_symbols) and not e.has(sp.nan):
        return BoolV(False)        # built from finite symbols and numbers
    return CondV(sp.Ne(sp.Function("IsInf")(e), 0))


def h_may_share(ev, args, kwargs, fr, node):
    """np.may_share_memory(a, b) on the evaluator's buffer identities: model objects carry `_buf` (views keep their base's), plain
    arrays share when one is (a view of) the other."""
    a, b = args[0], args[1]

    def buf(x):
        if isinstance(x, ObjV) and isinstance(x.attrs.get("_buf"), StrV):
            return ("buf", x.attrs["_buf"].s)
        if isinstance(x, Num):
            root, hops = x, 0
            while getattr(root, "base", None) is not None and hops < 20:
                root, hops = root.base, hops + 1
            return ("num", id(root))
        return None
    ba, bb = buf(a), buf(b)
    if ba is None or bb is None:
        if isinstance(a, (NoneV, StrV, BoolV)) or isinstance(b, (NoneV, StrV, BoolV)):
            return BoolV(False)
        ev.unsupported(f"np.may_share_memory({a!r}, {b!r})", node, fr)
    return BoolV(ba == bb)


def h_zeros_like(ev, args, kwargs, fr, node, fill=0):
    """np.zeros_like(a): a new array of a's shape, dtype and back end (through __array_function__, a Dask array gives a Dask array)."""
    x = args[0]
    if isinstance(x, ObjV) and "_data" in x.attrs:
        x = x.attrs["_data"]
    if isinstance(x, NdArr):
        out = NdArr(x.shape, [Num(fill) for _ in x.items])
        out.dtype = kwargs.get("dtype", getattr(x, "dtype", None))
        return out
    if not isinstance(x, Num) or x.shape is None:
        ev.unsupported(f"np.zeros_like({x!r})", node, fr)
    dt = kwargs.get("dtype", x.dtype)
    k = len(ev.__dict__.setdefault("fresh_arrays", []))
    sym = sp.Symbol(f"{'Z' if fill == 0 else 'O'}fill{k}")
    arr = Num(sym if fill else sp.Integer(0) * sym, kind="array", shape=list(x.shape), dtype=dt, tag="filled", backend=x.backend)
    arr = Num(sym, kind="array", shape=list(x.shape), dtype=dt, tag="filled", backend=x.backend)
    ev.fresh_arrays.append((sym, fill, list(x.shape), node))
    return arr


def h_zeros(ev, args, kwargs, fr, node, fill=0):
    shp = args[0]
    dt0 = kwargs.get("dtype", args[1] if len(args) > 1 else None)
    if isinstance(dt0, DictV) and "names" in dt0.d:
        # structured (record) array: a buffer with named fields of one common shape
        dims = tuple(s_.expr for s_ in shp.items) if isinstance(shp, (TupleV, ListV)) else (shp.expr,)
        names = [n_.s for n_ in dt0.d["names"].items] if isinstance(dt0.d["names"], (ListV, TupleV)) else []
        return OpaqueV("recbuf", {"shape": dims, "fields": {}, "names": names})
    if isinstance(shp, TupleV):
        dims = [s.expr for s in shp.items]
    else:
        dims = [shp.expr]
    dt = kwargs.get("dtype", args[1] if len(args) > 1 else None)
    if all(d.is_number for d in dims):
        n = 1
        for d in dims:
            n *= int(d)
        if n == 0 and len(dims) == 1:
            arr = NdArr((0,), [])
            arr.dtype = dt
            return arr
        if n == 0:
            return Num(sp.Symbol("empty_array"), kind="array", shape=dims, dtype=dt if isinstance(dt, ExtV) else None, tag="filled")
        if n <= 64:
            arr = NdArr([int(d) for d in dims], [Num(fill) for _ in range(n)])
            arr.dtype = dt
            return arr
    k = len(ev.__dict__.setdefault("fresh_arrays", []))
    sym = sp.Symbol(f"{'Z' if fill == 0 else 'O'}fill{k}")
    arr = Num(sym, kind="array", shape=dims, dtype=dt, tag="filled")
    ev.fresh_arrays.append((sym, fill, dims, node))
    return arr


def _dtype_name(d):
    if isinstance(d, ExtV) and d.dotted.startswith("numpy."):
        return d.dotted[6:].split(":")[0]
    return None


def h_can_cast(ev, args, kwargs, fr, node):
    src = args[0]
    dst = args[1] if len(args) > 1 else kwargs.get("to")
    casting = kwargs.get("casting", args[2] if len(args) > 2 else StrV("safe"))
    if isinstance(src, Num):
        src = src.dtype
    a, b = _dtype_name(src), _dtype_name(dst)
    if a in NP_DTYPES and b in NP_DTYPES and isinstance(casting, StrV):
        import numpy as np
        try:
            return BoolV(bool(np.can_cast(np.dtype(getattr(np, a)), np.dtype(getattr(np, b)), casting=casting.s)))
        except Exception:
            pass
    if b in NP_DTYPES and isinstance(casting, StrV) and casting.s == "safe" and (src is None or (isinstance(src, ExtV) and src.dotted.endswith(":unknown"))):
        # source dtype not tracked (the result of transforms whose dtype the evaluator does not follow): as for
        # .astype(..., casting="safe") of such a value, the safe cast is assumed to be possible
        ev.trace.append(("assumed-castable", b))
        return BoolV(True)
    ev.unsupported("np.can_cast between dtypes the evaluator does not know", node, fr)


def h_unravel_index(ev, args, kwargs, fr, node):
    idx = args[0]
    shp = args[1] if len(args) > 1 else kwargs.get("shape")
    o = kwargs.get("order", args[2] if len(args) > 2 else StrV("C"))
    if not isinstance(idx, Num) or not isinstance(shp, (TupleV, ListV)) or not isinstance(o, StrV):
        ev.unsupported("np.unravel_index of values the evaluator does not follow", node, fr)
    dims = [d_.expr for d_ in shp.items]
    term = F["Unravel"](idx.expr, sp.Symbol("order_" + o.s), *dims)
    return Num(term, kind="array", shape=idx.shape, tag="unravel")


def h_np_shape(ev, args, kwargs, fr, node):
    x = args[0]
    if isinstance(x, NoneV):
        return TupleV([])
    if isinstance(x, (BoolV, StrV)):
        return TupleV([])
    if isinstance(x, Num):
        if x.shape is None:
            if x.kind in ("number", "quantity", "time") and x.tag != "data":
                return TupleV([])
            ev.unsupported("np.shape of an array of unknown shape", node, fr)
        return TupleV([Num(s_) for s_ in x.shape])
    if isinstance(x, NdArr):
        return TupleV([Num(s_) for s_ in x.shape])
    if isinstance(x, (ListV, TupleV)):
        return TupleV([Num(len(x.items))])
    ev.unsupported(f"np.shape({x!r})", node, fr)


def h_broadcast_shapes(ev, args, kwargs, fr, node):
    shapes = []
    for a in args:
        if not isinstance(a, (TupleV, ListV)):
            ev.unsupported("np.broadcast_shapes of a non-tuple", node, fr)
        shapes.append([i.expr for i in a.items])
    nd = max([len(s_) for s_ in shapes] + [0])
    out = []
    for k in range(nd):
        dims = [s_[len(s_) - nd + k] for s_ in shapes if len(s_) - nd + k >= 0]
        cur = sp.Integer(1)
        for d_ in dims:
            if d_ == 1:
                continue
            if cur == 1:
                cur = d_
            elif cur != d_:
                raise_value_error(ev, "shape mismatch: objects cannot be broadcast to a single shape", node, fr)
        out.append(cur)
    return TupleV([Num(d_) for d_ in out])


def _concrete_double(v):
    return isinstance(v, Num) and not v.shape and v.expr.is_Rational and is_double(v.expr)


def h_two_sum(ev, args, kwargs, fr, node):
    """astropy.time.utils.two_sum: Knuth's branch-free error-free addition (exact for doubles in either order).  Folded only
    for concrete doubles under float_fold; symbolically an opaque pair with hi + lo = a + b."""
    a, b = args
    if getattr(ev, "float_fold", False) and _concrete_double(a) and _concrete_double(b):
        rd = round_to_double
        x = rd(a.expr + b.expr)
        eb = rd(x - a.expr)
        ea = rd(x - eb)
        lo = rd(rd(a.expr - ea) + rd(b.expr - eb))
        return TupleV([Num(x, isfloat=True), Num(lo, isfloat=True)])
    if isinstance(a, Num) and isinstance(b, Num):
        hi = sp.Function("TwoSumHi")(a.expr, b.expr)
        shp = _ufunc_broadcast_shape([a, b])
        knd = "array" if shp else "number"
        return TupleV([Num(hi, isfloat=True, shape=shp, kind=knd), Num(a.expr + b.expr - hi, isfloat=True, shape=shp, kind=knd)])
    ev.unsupported("two_sum of these operands", node, fr)


def h_two_product(ev, args, kwargs, fr, node):
    """astropy.time.utils.two_product: error-free multiplication (Veltkamp/Dekker): hi = fl(a*b), lo = a*b - hi exactly."""
    a, b = args
    if getattr(ev, "float_fold", False) and _concrete_double(a) and _concrete_double(b):
        x = round_to_double(a.expr * b.expr)
        lo = a.expr * b.expr - x
        if not is_double(lo):
            ev.unsupported("two_product outside the range where the error term is a double", node, fr)
        return TupleV([Num(x, isfloat=True), Num(lo, isfloat=True)])
    if isinstance(a, Num) and isinstance(b, Num):
        hi = sp.Function("TwoProdHi")(a.expr, b.expr)
        shp = _ufunc_broadcast_shape([a, b])
        knd = "array" if shp else "number"
        return TupleV([Num(hi, isfloat=True, shape=shp, kind=knd), Num(a.expr * b.expr - hi, isfloat=True, shape=shp, kind=knd)])
    ev.unsupported("two_product of these operands", node, fr)


def h_builtin_format(ev, args, kwargs, fr, node):
    v = args[0]
    spec = args[1] if len(args) > 1 else StrV("")
    if not isinstance(spec, StrV):
        ev.unsupported("format() with a computed format specification", node, fr)
    if isinstance(v, ObjV):
        m = v.cls.find_method("__format__")
        if m is not None:
            return ev.call(m, [spec], {}, self_val=v, depth=fr.depth + 1)
    if isinstance(v, (Num, StrV)):
        if isinstance(v, Num) and not v.expr.is_number:
            ev.unsupported("format() of a symbolic number", node, fr)
        return py_format(ev, "{:" + spec.s + "}", [v], node, fr)
    ev.unsupported(f"format({v!r})", node, fr)


def h_expand_dims(ev, args, kwargs, fr, node):
    x = args[0]
    axis = kwargs.get("axis", args[1] if len(args) > 1 else None)
    ax = ev.concrete_int(axis) if isinstance(axis, Num) else None
    if not isinstance(x, Num) or ax is None:
        ev.unsupported("np.expand_dims of these operands", node, fr)
    shp = list(x.shape) if x.shape is not None else []
    pos = ax if ax >= 0 else len(shp) + 1 + ax
    shp.insert(pos, sp.Integer(1))
    return Num(F["ExpandDims"](x.expr, sp.Integer(pos)), kind="array", shape=shp, tag=x.tag, dtype=x.dtype, backend=x.backend)


def h_take_along_axis(ev, args, kwargs, fr, node):
    x, idx = args[0], args[1]
    axis = kwargs.get("axis", args[2] if len(args) > 2 else None)
    ax = ev.concrete_int(axis) if isinstance(axis, Num) else None
    if not isinstance(x, Num) or not isinstance(idx, Num) or ax is None or x.shape is None:
        ev.unsupported("np.take_along_axis of these operands", node, fr)
    return Num(F["TakeAlong"](x.expr, idx.expr, sp.Integer(ax % len(x.shape))), kind="array", shape=idx.shape, tag=x.tag, dtype=x.dtype, backend=x.backend)


def h_roll(ev, args, kwargs, fr, node):
    x = args[0]
    sh = kwargs.get("shift", args[1] if len(args) > 1 else None)
    axis = kwargs.get("axis", args[2] if len(args) > 2 else NONE)
    if isinstance(x, StackV):
        return x.map(lambda e: h_roll(ev, [e, sh, axis], {}, fr, node))
    if isinstance(axis, NoneV) or not isinstance(sh, Num):
        ev.unsupported("np.roll without an axis / with a non-scalar shift", node, fr)
    ax = ev.concrete_int(axis)
    if ax is None:
        ev.unsupported("np.roll along a symbolic axis", node, fr)
    if isinstance(x, NdArr):
        k = ev.concrete_int(sh)
        if k is None:
            ev.unsupported("np.roll of an explicit array by a symbolic amount", node, fr)
        out = nd_roll(x, ax, k)
        out.dtype = getattr(x, "dtype", None)
        return out
    if not isinstance(x, Num) or x.shape is None:
        ev.unsupported(f"np.roll of {x!r}", node, fr)
    n = x.shape[ax % len(x.shape)]
    axes_out = None
    if x.axes is not None:
        axes_out = [None if i == ax % len(x.shape) else a_ for i, a_ in enumerate(x.axes)]
    half = sp.floor(n / 2) if not sp.sympify(n).is_number else sp.Integer(int(n) // 2)
    k = sh.expr

    def same(u_, v_):
        try:
            return sp.simplify(u_ - v_) == 0
        except Exception:
            return False
    if same(k, half):
        name = "FFTSHIFT"        # roll by n//2 along one axis is fftshift along it
    elif same(k, -half):
        name = "IFFTSHIFT"
    else:
        return Num(F["Roll"](x.expr, k, ax % len(x.shape)), kind=x.kind, shape=x.shape, axes=axes_out, backend=x.backend, tag=x.tag, dtype=x.dtype)
    return Num(F[name](x.expr, F["Tup"](sp.Integer(ax))), kind=x.kind, shape=x.shape, axes=axes_out, backend=x.backend, tag=x.tag, dtype=x.dtype)


def h_full(ev, args, kwargs, fr, node):
    fill = kwargs.get("fill_value", args[1] if len(args) > 1 else None)
    if not isinstance(fill, Num) or not fill.expr.is_number:
        ev.unsupported("np.full with a non-literal fill value", node, fr)
    rest = [args[0]] + list(args[2:])
    out = h_zeros(ev, rest, kwargs, fr, node, fill=fill.expr)
    if isinstance(out, NdArr) and getattr(out, "dtype", None) is None:
        out.dtype = ExtV("numpy.float64") if (fill.isfloat or not fill.expr.is_integer) else ExtV("numpy.int64")
    return out


def h_array(ev, args, kwargs, fr, node, strip=False, default_copy=None):
    x = args[0]
    if isinstance(x, StrV):
        return OpaqueV("strarray", x)
    cp = kwargs.get("copy")
    fresh = (isinstance(cp, BoolV) and cp.b) or (cp is None and default_copy is True)
    out = _h_array(ev, args, kwargs, fr, node, strip)
    if fresh and out is x and isinstance(out, Num):
        return out.like(out.expr, unit=out.unit, cls=out.cls, tag=out.tag)      # copy=True: a new array object
    return out


def _h_array(ev, args, kwargs, fr, node, strip=False):
    x = args[0]
    dt = kwargs.get("dtype", args[1] if len(args) > 1 else NONE)
    subok = kwargs.get("subok")
    if strip and not (isinstance(subok, BoolV) and subok.b) and isinstance(x, Num) and x.kind == "quantity" and x.tag != "unit":
        # np.array / np.asarray return a base-class ndarray: a Quantity loses its unit (its numbers in the current unit remain)
        ev.trace.append(("subclass-stripped", norm(node) if node is not None else "", x))
        v = num_getattr(ev, x, "value", fr, node)
        x = Num(v.expr, kind="array", shape=v.shape if v.shape is not None else (), axes=v.axes, backend=x.backend, tag=x.tag, dtype=x.dtype, isfloat=True)
    if isinstance(x, Num) and not isinstance(dt, NoneV) and x.kind in ("array",):
        if isinstance(dt, ExtV) and isinstance(x.dtype, ExtV) and _dtype_name(dt) is not None and _dtype_name(dt) == _dtype_name(x.dtype):
            return x          # the dtype asked for is the one the array has: no conversion, hence (unless copy=True) no new array
        return x.like(x.expr, dtype=dt)
    if isinstance(x, (Num, NdArr)):
        if isinstance(x, Num) and x.kind in ("number",):
            return x.like(x.expr, kind="array", shape=x.shape if x.shape is not None else ())
        return x
    if isinstance(x, BoolV):
        return Num(int(x.b), kind="array", shape=())
    if isinstance(x, (ListV, TupleV)):
        def build(v):
            if isinstance(v, (ListV, TupleV)):
                subs = [build(i) for i in v.items]
                shp = subs[0][0] if subs else ()
                flat = []
                for s, f in subs:
                    flat += f
                return (len(v.items),) + tuple(shp), flat
            if isinstance(v, StrV):
                return (), [Num(token_number(v.s), isfloat=True)]
            if isinstance(v, BoolV):
                return (), [Num(int(v.b))]
            return (), [v]
        shp, flat = build(x)
        return NdArr(shp, flat)
    ev.unsupported(f"np.array of {x!r}", node, fr)


def h_stack(ev, args, kwargs, fr, node):
    items = ev.iterate(args[0], fr, node)
    axis = ev.concrete_int(kwargs.get("axis", args[1] if len(args) > 1 else Num(0)))
    st = StackV(items, axis, backend=getattr(items[0], "backend", None) if items else None)
    shp = getattr(items[0], "shape", None) if items else None
    if shp is not None and all(getattr(i, "shape", None) is not None and len(i.shape) == len(shp) for i in items):
        ax = axis if axis >= 0 else axis + len(shp) + 1
        st.shape = tuple(list(shp[:ax]) + [sp.Integer(len(items))] + list(shp[ax:]))
    return st


def h_concatenate(ev, args, kwargs, fr, node):
    items = ev.iterate(args[0], fr, node)
    axis = kwargs.get("axis", args[1] if len(args) > 1 else Num(0))
    ax = ev.concrete_int(axis)
    # Python sequences among the pieces are arrays too
    items = [h_array(ev, [i], {}, fr, node) if isinstance(i, (ListV, TupleV)) else i for i in items]
    if items and all(isinstance(i, NdArr) for i in items):
        if all(i.ndim == 1 for i in items) and ax in (0, -1):
            flat = [e for i in items for e in i.items]
            out = NdArr((len(flat),), flat)
            dts = [getattr(i, "dtype", None) for i in items if len(i.items)]
            out.dtype = dts[0] if dts else None
            for d_ in dts[1:]:
                out.dtype = promote_dtype(out.dtype, d_)
            return out
        ev.unsupported("np.concatenate of explicit arrays of rank > 1", node, fr)
    if not all(isinstance(i, (Num, NdArr)) for i in items):
        ev.unsupported(f"np.concatenate of {[type(i).__name__ for i in items]}", node, fr)
    if any(isinstance(i, NdArr) for i in items):
        ev.unsupported("np.concatenate mixing explicit and symbolic-length arrays", node, fr)
    shape = None
    if ax is not None and all(isinstance(i, Num) and i.shape is not None for i in items):
        shape = list(items[0].shape)
        shape[ax] = sum((i.shape[ax] for i in items[1:]), items[0].shape[ax])
    exprs = [i.expr if isinstance(i, Num) else sp.Symbol("stack") for i in items]
    ax_term = axis.expr if isinstance(axis, Num) else NONE_S
    if ax is not None and ax < 0 and shape is not None:
        ax_term = sp.Integer(ax % len(shape))          # a negative axis names the same axis as its non-negative spelling
    return Num(F["Concat"](F["Tup"](*exprs), ax_term), kind="array", shape=shape,
               backend=getattr(items[0], "backend", None), tag="data", dtype=getattr(items[0], "dtype", None))


class StackV(Val):
    """np.stack([...], axis): explicit components along one axis of an otherwise symbolic array."""
    def __init__(self, items, axis, backend=None):
        self.items, self.axis, self.backend = list(items), axis, backend
        self.kind = "array"
        self.tag = "data"
        self.shape = None
        self.dtype = None

    def map(self, f):
        st = StackV([f(x) for x in self.items], self.axis, self.backend)
        st.shape, st.dtype = self.shape, self.dtype
        dts = {getattr(getattr(x, "dtype", None), "dotted", None) for x in st.items}
        if len(dts) == 1 and None not in dts:
            st.dtype = st.items[0].dtype        # the components know their dtype (e.g. after .real): it is the stack's
        return st

    def __repr__(self):
        return f"StackV(axis={self.axis}, {self.items})"


def h_take(ev, args, kwargs, fr, node):
    x, k = args[0], args[1]
    axis = ev.concrete_int(kwargs.get("axis", args[2] if len(args) > 2 else NONE)) if not isinstance(kwargs.get("axis", NONE if len(args) < 3 else args[2]), NoneV) else None
    kk = ev.concrete_int(k)
    if isinstance(x, StackV):
        nd = len(x.shape) if x.shape is not None else None
        ax_n = axis % nd if (axis is not None and nd and -nd <= axis < nd) else axis
        sx_n = x.axis % nd if (nd and -nd <= x.axis < nd) else x.axis
        if axis is not None and ax_n == sx_n and kk is not None:
            try:
                return x.items[kk]
            except IndexError:
                from .symeval import Raised
                raise Raised("IndexError", node)
        if nd and axis is not None and 0 <= ax_n < nd and 0 <= sx_n < nd and ax_n != sx_n:
            # along another axis than the stacked one: component by component
            sub_ax = ax_n if ax_n < sx_n else ax_n - 1
            st = StackV([h_take(ev, [it, k], {"axis": Num(sub_ax)}, fr, node) for it in x.items], sx_n if sx_n < ax_n else sx_n - 1, x.backend)
            st.shape = tuple(s_ for i, s_ in enumerate(x.shape) if i != ax_n)
            st.dtype = x.dtype
            return st
        return Num(F["Take"](sp.Symbol("stack"), k.expr, sp.Integer(axis if axis is not None else -99)), kind="array")
    if isinstance(x, Num):
        shape = None
        if x.shape is not None and axis is not None:
            shape = [s for i, s in enumerate(x.shape) if i != axis % len(x.shape)]
        return Num(F["Take"](x.expr, k.expr, sp.Integer(axis) if axis is not None else NONE_S), kind=x.kind,
                   shape=shape, backend=x.backend, tag=x.tag, dtype=x.dtype)
    ev.unsupported(f"np.take of {x!r}", node, fr)


def _fft_like(fname):
    def h(ev, args, kwargs, fr, node):
        x = args[0]
        axis = kwargs.get("axis", args[2] if len(args) > 2 else Num(-1))
        n = kwargs.get("n", args[1] if len(args) > 1 else NONE)
        if isinstance(x, StackV):
            return x.map(lambda e: h(ev, [e] + list(args[1:]), kwargs, fr, node))
        if isinstance(x, NdArr) and fname in ("FFT", "IFFT", "FFT_rfft", "IFFT_irfft"):
            ax_i = ev.concrete_int(axis) % x.ndim
            n_i = None if isinstance(n, NoneV) else ev.concrete_int(n)
            if fname == "FFT_rfft":
                full = nd_dft(ev, x, ax_i, n_i, False)
                keep = full.shape[ax_i] // 2 + 1
                out = nd_getitem(ev, full, TupleV([SliceV(NONE, NONE, NONE)] * ax_i + [SliceV(NONE, Num(keep), NONE)]), fr, node)
            elif fname == "IFFT_irfft":
                m = x.shape[ax_i]
                n_out = 2 * (m - 1) if n_i is None else n_i
                if n_out < 1:
                    raise_value_error(ev, f"Invalid number of data points ({n_out}) specified", node, fr)
                # Hermitian completion: X[n-k] = conj(X[k]); the imaginary part of X[0] (and of X[n/2] for even n) is discarded
                new_shape = list(x.shape)
                new_shape[ax_i] = n_out
                full = NdArr(new_shape, [Num(0)] * (len(x.items) // m * n_out))
                for src, dst in zip(nd_lines(x, ax_i), nd_lines(full, ax_i)):
                    for k in range(n_out):
                        if k <= n_out // 2:
                            v = x.items[src[k]].expr if k < m else sp.Integer(0)
                            if k == 0 or (n_out % 2 == 0 and k == n_out // 2):
                                v = sp.re(v)
                        else:
                            kk = n_out - k
                            v = sp.conjugate(x.items[src[kk]].expr) if kk < m else sp.Integer(0)
                        full.items[dst[k]] = Num(v)
                out = nd_dft(ev, full, ax_i, None, True)
                out = out.map(lambda e: Num(sp.re(sp.expand(e.expr, complex=True))))
            else:
                out = nd_dft(ev, x, ax_i, n_i, fname == "IFFT")
            out.dtype = getattr(x, "dtype", None)
            return out
        if not isinstance(x, Num):
            ev.unsupported(f"{fname} of {x!r}", node, fr)
        ax = axis.expr if isinstance(axis, Num) else NONE_S
        extra = [] if isinstance(n, NoneV) else [n.expr]
        shape = x.shape
        if shape is not None and isinstance(axis, Num) and axis.expr.is_number:
            shape = list(shape)
            k = int(axis.expr)
            cur = n.expr if extra else shape[k]
            if fname in ("FFT_rfft",):
                shape[k] = sp.floor(cur / 2) + 1
            elif fname in ("IFFT_irfft",):
                shape[k] = n.expr if extra else 2 * (shape[k] - 1)
            elif extra:
                shape[k] = n.expr
        axes_out = None
        if x.axes is not None and shape is not None and isinstance(axis, Num) and axis.expr.is_number and len(x.axes) == len(shape):
            # the index of the transformed axis is summed over; element indices of the other axes stay aligned
            axes_out = [None if i == int(axis.expr) % len(shape) else a_ for i, a_ in enumerate(x.axes)]
        return Num(F[fname](x.expr, ax, *extra), kind=x.kind if x.kind != "number" else "array", shape=shape, axes=axes_out,
                   backend=x.backend, tag=x.tag, dtype=fft_result_dtype(fname, x.dtype))
    return h


def fft_result_dtype(fname, dt):
    """dtype of a scipy/numpy FFT result: single precision only for float32/complex64 (and float16) input; real for irfft/hfft."""
    nm = _dtype_name(dt)
    if nm is None:
        return dt
    single = nm in ("float32", "complex64", "float16")
    if fname in ("IFFT_irfft", "IFFT_irfft2", "IFFT_irfftn", "FFT_hfft"):
        return ExtV("numpy.float32" if single else "numpy.float64")
    return ExtV("numpy.complex64" if single else "numpy.complex128")


def _shift_like(fname):
    def h(ev, args, kwargs, fr, node):
        x = args[0]
        axes = kwargs.get("axes", args[1] if len(args) > 1 else NONE)
        if isinstance(axes, (TupleV, ListV)):
            ax = F["Tup"](*[a.expr for a in axes.items])
        elif isinstance(axes, Num):
            ax = F["Tup"](axes.expr)
        else:
            ax = NONE_S
        if isinstance(x, StackV):
            return x.map(lambda e: h(ev, [e] + list(args[1:]), kwargs, fr, node))
        if isinstance(x, NdArr):
            al = [ev.concrete_int(a) for a in axes.items] if isinstance(axes, (TupleV, ListV)) else \
                ([ev.concrete_int(axes)] if isinstance(axes, Num) else list(range(x.ndim)))
            out = x
            for a in al:
                nn = out.shape[a % out.ndim]
                out = nd_roll(out, a, nn // 2 if fname == "FFTSHIFT" else -(nn // 2))
            out.dtype = getattr(x, "dtype", None)
            return out
        # a circular shift along some axes: element indices of the other axes stay aligned (the shifted axes lose theirs)
        axes_out = None
        if x.axes is not None and x.shape is not None:
            shifted = None
            if isinstance(axes, (TupleV, ListV)):
                shifted = [ev.concrete_int(a) for a in axes.items]
            elif isinstance(axes, Num):
                shifted = [ev.concrete_int(axes)]
            if shifted is not None and all(a is not None for a in shifted):
                nd_ = len(x.shape)
                axes_out = [None if any(i == a % nd_ for a in shifted) else ax_ for i, ax_ in enumerate(x.axes)]
        return Num(F[fname](x.expr, ax), kind=x.kind, shape=x.shape, axes=axes_out, backend=x.backend, tag=x.tag, dtype=x.dtype)
    return h


def h_nditer(ev, args, kwargs, fr, node):
    x = args[0]
    flags = kwargs.get("flags")
    if isinstance(x, NdArr):
        elems = []
        for combo, e in zip(x.index_iter(), x.items):
            elems.append((TupleV([Num(c) for c in combo]), e))
    elif isinstance(x, Num) and (x.shape is None or len(x.shape) == 0 or all(s == 1 for s in x.shape)):
        nd = 0 if x.shape is None else len(x.shape)
        e = x.like(x.expr, shape=None, axes=None, kind="number")
        elems = [(TupleV([Num(0)] * nd), e)]
    else:
        ev.unsupported("nditer over a symbolic-shape array", node, fr)
    state = {"current": TupleV([]), "elems": elems}
    it = OpaqueV("nditer", state)
    return it


def iterate_nditer(ev, it, fr):
    out = []
    for mi, e in it.payload["elems"]:
        out.append((mi, e))
    return out


def h_broadcast_to(ev, args, kwargs, fr, node):
    x, shp = args[0], args[1]
    dims = [ev.concrete_int(s) for s in shp.items] if isinstance(shp, TupleV) else None
    if isinstance(x, NdArr) and dims and all(d is not None for d in dims):
        import itertools
        src = list(x.shape)
        src = [1] * (len(dims) - len(src)) + src
        base = NdArr(src, x.items)
        items = []
        strides = []
        acc = 1
        for s in reversed(src):
            strides.insert(0, acc)
            acc *= s
        for combo in itertools.product(*[range(d) for d in dims]):
            off = sum((c if s != 1 else 0) * st for c, s, st in zip(combo, src, strides))
            items.append(base.items[off])
        return NdArr(dims, items)
    if isinstance(x, Num) and (x.shape is None or len(x.shape) == 0) and dims and all(d is not None for d in dims):
        n = 1
        for d in dims:
            n *= d
        return NdArr(dims, [x] * n)
    ev.unsupported("np.broadcast_to with symbolic shapes", node, fr)


def h_result_type(ev, args, kwargs, fr, node):
    import numpy as _np
    names = []
    for a in args:
        if isinstance(a, ExtV) and a.dotted.startswith("numpy.") and a.dotted[6:] in NP_KIND:
            names.append(getattr(_np, a.dotted[6:]))
        elif isinstance(a, Num) and isinstance(a.dtype, ExtV) and a.dtype.dotted[6:] in NP_KIND:
            names.append(getattr(_np, a.dtype.dotted[6:]))
        else:
            ev.unsupported("np.result_type of a value without a known dtype", node, fr)
    r = _np.result_type(*names)
    return ExtV("numpy." + (r.name if r.name != "bool" else "bool_"))


def h_reduce(ev, args, kwargs, fr, node):
    fn, seq = args[0], ev.iterate(args[1], fr, node)
    if not seq:
        if len(args) > 2:
            return args[2]
        from .symeval import Raised
        raise Raised("TypeError", node, "reduce() of empty sequence")
    acc = args[2] if len(args) > 2 else seq[0]
    for x in (seq if len(args) > 2 else seq[1:]):
        acc = ev.apply(fn, [acc, x], {}, fr, node)
    return acc


def h_unique(ev, args, kwargs, fr, node):
    x = args[0]
    if isinstance(x, NdArr) and all(isinstance(e, Num) and e.expr.is_number for e in x.items):
        flat = [e.expr for e in x.items]
        vals = sorted(set(flat))
        res = [NdArr((len(vals),), [Num(v) for v in vals])]

        def flag(name):
            v = kwargs.get(name)
            return isinstance(v, BoolV) and v.b
        if flag("return_index"):
            res.append(NdArr((len(vals),), [Num(flat.index(v)) for v in vals]))
        if flag("return_inverse"):
            res.append(NdArr((len(flat),), [Num(vals.index(v)) for v in flat]))
        if flag("return_counts"):
            res.append(NdArr((len(vals),), [Num(flat.count(v)) for v in vals]))
        if kwargs.get("axis") is not None and not isinstance(kwargs.get("axis"), NoneV):
            ev.unsupported("np.unique along an axis", node, fr)
        return res[0] if len(res) == 1 else TupleV(res)
    ev.unsupported("np.unique of a symbolic array", node, fr)


def h_quantity(ev, args, kwargs, fr, node, angle=False):
    """u.Quantity(value, unit=None, copy=...) / Angle(value, unit, copy=...)"""
    from .symeval import Raised
    x = args[0]
    unit = kwargs.get("unit", args[1] if len(args) > 1 else NONE)
    cp = kwargs.get("copy", NONE)
    ev.trace.append(("quantity-ctor", "Angle" if angle else "Quantity", x, cp, node))
    dt_ = kwargs.get("dtype")
    if dt_ is not None and not isinstance(dt_, NoneV) and not (isinstance(dt_, ExtV) and dt_.dotted in ("numpy.float64", "builtins.float", "numpy.complex128")):
        # Quantity(value, unit, dtype=X): the value is CAST to X -- rounding to single precision, truncation to an integer type
        ev.trace.append(("quantity-dtype", norm(node)[:80] if node is not None else "", dt_))
    if isinstance(x, (StrV, DictV)) or isinstance(x, NoneV):
        raise Raised("TypeError", node, "cannot build a Quantity from this value")
    if isinstance(x, (ListV, TupleV)):
        x = h_array(ev, [x], {}, fr, node)
    if isinstance(x, NdArr):
        return x.map(lambda e: h_quantity(ev, [e] + list(args[1:]), kwargs, fr, node, angle))
    if isinstance(x, ObjV) and x.cls.name == "Phase" and not isinstance(unit, NoneV):
        # a Phase is an Angle in cycles: astropy refuses to convert it to a dimensionless (or any non-angular) unit
        ue_ = unit_of(ev, unit, node)
        if ue_ == 1 or not sp.sympify(ue_).has(UNITS.get("cycle", sp.Symbol("cycle"))):
            raise Raised("UnitConversionError", node, "'cycle' (angle) and the requested unit are not convertible")
    if not isinstance(x, Num):
        ev.unsupported(f"Quantity({x!r})", node, fr)
    if isinstance(unit, NoneV):
        if x.kind == "quantity":
            return x
        return x.like(x.expr, kind="quantity", unit=sp.Integer(1))
    ue = unit_of(ev, unit, node)
    if x.kind in ("quantity", "time"):
        dimension_check(ev, x.expr, ue, f"Quantity(..., {ue})", node)
        return x.like(x.expr, kind="quantity", unit=ue)
    return x.like(x.expr * ue, kind="quantity", unit=ue)


def np_bool(b):
    """numpy.bool_: equal to the Python bool, but another object -- `np.True_ is True` is False."""
    r_ = BoolV(b)
    r_.np = True
    return r_


def h_npall(ev, args, kwargs, fr, node, any_=False):
    r_ = _h_npall(ev, args, kwargs, fr, node, any_)
    if isinstance(r_, BoolV) and not getattr(r_, "np", False):
        return np_bool(r_.b)
    return r_


def _h_npall(ev, args, kwargs, fr, node, any_=False):
    x = args[0]
    if isinstance(x, (BoolV, CondV)):
        return x
    if isinstance(x, NdArr):
        return h_all(ev, [ListV(x.items)], {}, fr, node, any_=any_)
    if isinstance(x, Num):
        t = ev.truth(x, fr, node)
        return BoolV(t) if t in (True, False) else CondV(t)
    ev.unsupported(f"np.all of {x!r}", node, fr)


def h_timedelta(ev, args, kwargs, fr, node):
    """astropy.time.TimeDelta(x, format="sec"|"jd") of a bare number, or of a time Quantity: a duration."""
    x = args[0]
    fmt = kwargs.get("format", args[1] if len(args) > 1 else NONE)
    if isinstance(x, Num) and x.kind == "quantity":
        dimension_check(ev, x.expr, 1 / UNITS["Hz"], "TimeDelta(<Quantity>)", node)
        return x.like(x.expr, kind="quantity", unit=1 / UNITS["Hz"])
    if isinstance(x, Num) and x.kind in ("number", "array"):
        scale = {"sec": 1, "jd": 86400}.get(fmt.s if isinstance(fmt, StrV) else "jd")
        if scale is None:
            ev.unsupported(f"TimeDelta format {fmt!r}", node, fr)
        return Num(x.expr * scale / UNITS["Hz"], kind="quantity", shape=x.shape, axes=x.axes, unit=1 / UNITS["Hz"])
    ev.unsupported(f"TimeDelta({x!r})", node, fr)


def h_time(ev, args, kwargs, fr, node):
    x = args[0]
    if isinstance(x, Num) and x.kind == "time":
        return x
    fmt = kwargs.get("format")
    if isinstance(x, OpaqueV) and x.what == "timerendered":
        # a Time rebuilt from a rendering of another Time: the instant to the digits of that rendering only
        t0 = x.payload["time"]
        ev.trace.append(("time-through-rendering", norm(node) if node is not None else "", x.payload["as"]))
        return Num(F["TimeRendered"](sp.expand(t0.expr * UNITS["Hz"])) / UNITS["Hz"], kind="time", shape=t0.shape, axes=t0.axes)
    if isinstance(x, StrV) and isinstance(fmt, StrV) and fmt.s == "mjd":
        try:
            return Num(token_number(x.s) * 86400 / UNITS["Hz"], kind="time")
        except Exception:
            pass
    from .symeval import Raised
    if isinstance(x, (ListV, TupleV)) and x.items and all(isinstance(i, Num) and i.kind == "time" and not i.shape for i in x.items):
        arr = NdArr((len(x.items),), list(x.items))          # Time([t0, t1, ...]): an array-valued Time of the same instants
        return arr
    if isinstance(x, (StrV, NoneV, BoolV, DictV, ListV, TupleV)) or (isinstance(x, Num) and x.kind != "time"):
        if isinstance(x, Num) and kwargs.get("format") is not None and isinstance(kwargs["format"], StrV) \
                and kwargs["format"].s == "mjd":
            val2 = kwargs.get("val2", args[1] if len(args) > 1 else None)
            if val2 is None or isinstance(val2, NoneV):
                # a day number held in ONE double: resolution ~1e-11 day (about a microsecond) for modern dates
                ev.trace.append(("time-from-double", norm(node) if node is not None else "", x))
                return Num(x.expr * 86400 / UNITS["Hz"], kind="time")
            if isinstance(val2, Num):
                return Num((x.expr + val2.expr) * 86400 / UNITS["Hz"], kind="time")
        raise Raised("ValueError", node, "Time() of a non-Time value")
    ev.unsupported(f"Time({x!r})", node, fr)


def h_isclose_time(ev, args, kwargs, fr, node):
    a, b = args[0], args[1]
    extra = [x.expr for x in args[2:]] + [v.expr for v in kwargs.values() if isinstance(v, Num)]
    shape = a.shape or b.shape
    e = sp.Ne(F["TClose"](a.expr, b.expr, *extra), 0)
    if shape:
        return Num(e, kind="bool", shape=shape)
    return CondV(e)


def h_isclose_q(ev, args, kwargs, fr, node):
    a, b = args[0], args[1]
    return CondV(sp.Ne(F["QClose"](a.expr, b.expr), 0))


def h_bool_(ev, args, kwargs, fr, node):
    x = args[0]
    if isinstance(x, CondV):
        return Num(x.expr, kind="bool")
    return x


def h_where(ev, args, kwargs, fr, node):
    if len(args) == 1:
        return h_nonzero(ev, args, kwargs, fr, node)        # np.where(cond) is np.nonzero(cond)
    c, a, b = args
    ev.trace.append(("where-call", c, a, b, node))
    if isinstance(c, BoolV):
        return a if c.b else b
    if isinstance(c, NdArr):
        # explicit boolean mask over a data array: keep the mask in the trace so that rules can read which cells
        # take which side; the value term names the mask
        def zero(v):
            return (isinstance(v, Num) and v.expr == 0 and not v.shape) or (isinstance(v, BoolV) and not v.b)
        data = a if (isinstance(a, Num) and a.shape) else b if (isinstance(b, Num) and b.shape) else None
        other = b if data is a else a
        if data is not None and isinstance(other, (Num, BoolV)):
            k = sum(1 for t in ev.trace if t[0] == "where-mask")
            sym = sp.Symbol(f"mask{k}")
            oe = other.expr if isinstance(other, Num) else sp.Integer(int(other.b))
            expr = F["Where"](sym, data.expr, oe) if data is a else F["Where"](sym, oe, data.expr)
            out = data.like(expr, unit=data.unit)
            ev.trace.append(("where-mask", sym, c, "true" if data is a else "false", data, other))
            return out
        if isinstance(a, (NdArr, Num, BoolV)) and isinstance(b, (NdArr, Num, BoolV)) and all(isinstance(e, (BoolV, CondV)) for e in c.items) \
                and not (isinstance(a, Num) and a.shape) and not (isinstance(b, Num) and b.shape):
            # explicit selection between explicit (or scalar) values; an undecided element becomes a conditional value
            shape1, p1 = nd_pairs(ev, c, a, node, fr)
            shape2, p2 = nd_pairs(ev, NdArr(shape1, [x for x, _ in p1]), b, node, fr)
            if shape1 == shape2:
                def pick(cv, av, bv):
                    if isinstance(cv, BoolV):
                        return av if cv.b else bv
                    return ev.ite(cv.expr, av, bv)
                return NdArr(shape1, [pick(cv, av, bv) for (cv, av), (_, bv) in zip(p1, p2)])
        ev.unsupported("np.where with an explicit mask over values that are not (data array, scalar)", node, fr)
    ce = c.expr
    if not is_bool_expr(ce):
        ce = sp.Ne(ce, 0)
    shp = _ufunc_broadcast_shape([x for x in (c, a, b) if isinstance(x, Num)])
    scalar = shp is None and all(isinstance(x, Num) and x.kind in ("number", "bool", "quantity") and x.tag != "data" for x in (a, b))
    return Num(mk_ite(ce, a.expr, b.expr), kind=("number" if scalar else "array"), shape=(() if scalar and shp is None else shp),
               isfloat=getattr(a, "isfloat", False) or getattr(b, "isfloat", False), dtype=getattr(a, "dtype", None) or getattr(b, "dtype", None),
               backend=getattr(a, "backend", None) or getattr(b, "backend", None))


def h_signbit(ev, args, kwargs, fr, node):
    """np.signbit: the sign BIT, set for negative numbers and for the negative zero (-0.0 < 0 is False, signbit(-0.0) is True)."""
    x = args[0]
    if isinstance(x, NdArr):
        return x.map(lambda e: h_signbit(ev, [e], kwargs, fr, node))
    if not isinstance(x, Num):
        ev.unsupported(f"np.signbit of {x!r}", node, fr)
    if x.tag == "negzero":
        return BoolV(True)
    if x.expr.is_number and x.expr.is_real:
        return BoolV(bool(x.expr < 0))
    c = sp.Lt(x.expr, 0)
    if x.shape:
        return Num(c, kind="bool", shape=x.shape, axes=x.axes)
    return CondV(c)


def _np_type_of(v):
    import numpy as np
    if isinstance(v, ExtV):
        d = v.dotted
        if d.startswith("numpy."):
            nm = d[6:].split(":")[0]
            return getattr(np, nm, None)
        if d.startswith("builtins."):
            return {"complex": complex, "float": float, "int": int, "bool": bool}.get(d[9:])
    if isinstance(v, StrV):
        try:
            return np.dtype(v.s).type
        except Exception:
            return None
    return None


def h_issubdtype(ev, args, kwargs, fr, node):
    """np.issubdtype, answered by the installed NumPy on the dtype names (the builtin `complex` means complex128 only)."""
    import numpy as np
    a, b = _np_type_of(args[0]), _np_type_of(args[1])
    if a is None or b is None:
        ev.unsupported(f"np.issubdtype({args[0]!r}, {args[1]!r})", node, fr)
    return BoolV(bool(np.issubdtype(a, b)))


def h_result_type(ev, args, kwargs, fr, node):
    import numpy as np
    ts = []
    for a in args:
        if isinstance(a, Num) and a.dtype is not None:
            a = a.dtype
        t = _np_type_of(a)
        if t is None:
            ev.unsupported(f"np.result_type of {a!r}", node, fr)
        ts.append(np.dtype(t))
    return ExtV("numpy." + np.result_type(*ts).name)


def h_squeeze(ev, args, kwargs, fr, node):
    x = args[0]
    ax = kwargs.get("axis", args[1] if len(args) > 1 else NONE)
    if not isinstance(ax, NoneV):
        ev.unsupported("np.squeeze with an axis argument", node, fr)
    if isinstance(x, NdArr):
        out = NdArr(tuple(s_ for s_ in x.shape if s_ != 1), list(x.items))
        out.dtype = getattr(x, "dtype", None)
        return out
    if isinstance(x, Num):
        if x.shape is None:
            return x
        keep = [s_ for s_ in x.shape if not (sp.sympify(s_) == 1)]
        if any(not sp.sympify(s_).is_number for s_ in x.shape if sp.sympify(s_) != 1) and len(keep) != len(x.shape):
            pass        # symbolic extents other than the literal ones stay
        return x.like(x.expr, unit=x.unit, dtype=x.dtype, shape=tuple(keep)) if hasattr(x, "like") else x
    ev.unsupported(f"np.squeeze of {x!r}", node, fr)


def h_ndenumerate(ev, args, kwargs, fr, node):
    x = args[0]
    if isinstance(x, Num) and (x.shape is None or len(x.shape) == 0):
        return ListV([TupleV([TupleV([]), x])])
    if isinstance(x, Num):
        x2 = nd_materialize(x)
        if x2 is None:
            ev.unsupported("np.ndenumerate over an array whose elements are not enumerable", node, fr)
        x = x2
    if isinstance(x, NdArr):
        import itertools
        idx = list(itertools.product(*[range(int(s_)) for s_ in x.shape]))
        return ListV([TupleV([TupleV([Num(sp.Integer(i)) for i in ix]), v]) for ix, v in zip(idx, x.items)])
    ev.unsupported(f"np.ndenumerate of {x!r}", node, fr)


def h_ndindex(ev, args, kwargs, fr, node):
    import itertools
    shp = args[0].items if len(args) == 1 and isinstance(args[0], (TupleV, ListV)) else list(args)
    dims = [ev.concrete_int(d_) for d_ in shp]
    if any(d_ is None for d_ in dims):
        ev.unsupported("np.ndindex over a symbolic shape", node, fr)
    return ListV([TupleV([Num(sp.Integer(i)) for i in ix]) for ix in itertools.product(*[range(d_) for d_ in dims])])


def h_cumsum(ev, args, kwargs, fr, node):
    x = args[0]
    items = ev.iterate(x, fr, node) if isinstance(x, (ListV, TupleV, NdArr)) else None
    if items is None or not all(isinstance(i, Num) for i in items) or kwargs.get("axis") is not None and not isinstance(kwargs.get("axis"), NoneV):
        ev.unsupported("np.cumsum of something else than a 1-D sequence of numbers", node, fr)
    acc, out = None, []
    for it in items:
        acc = it if acc is None else binop(ev, ast.Add(), acc, it, node, fr)
        out.append(acc)
    r = NdArr((len(out),), out)
    return r


def h_prod(ev, args, kwargs, fr, node):
    x = args[0]
    if isinstance(x, (TupleV, ListV)):
        r = sp.Integer(1)
        for i in x.items:
            r *= i.expr
        return Num(r)
    ev.unsupported("np.prod of a non-sequence", node, fr)


def h_sum(ev, args, kwargs, fr, node):
    x = args[0]
    if isinstance(x, (TupleV, ListV)) or (isinstance(x, OpaqueV) and x.what == "iter"):
        r = sp.Integer(0)
        for i in ev.iterate(x, fr, node):
            r += i.expr
        return Num(r)
    ev.unsupported("sum of a non-sequence", node, fr)


def h_abs(ev, args, kwargs, fr, node):
    return args[0].like(sp.Abs(args[0].expr), unit=args[0].unit)


def round_term(e):
    """round-to-nearest as a term.  A concrete rational is rounded exactly as Python's round / np.round do (ties to even:
    round(2.5) == 2); a symbolic argument becomes floor(x + 1/2), which differs from that on exact half-integers only."""
    if e.is_Rational:
        from fractions import Fraction
        return sp.Integer(round(Fraction(int(e.p), int(e.q))))
    a = e + sp.Rational(1, 2)
    return sp.floor(a) if a.is_number else sp.floor(a, evaluate=False)


def h_round(ev, args, kwargs, fr, node):
    x = args[0]
    if isinstance(x, NdArr):
        return x.map(lambda e: e.like(round_term(e.expr)))
    return x.like(round_term(x.expr))


def h_allclose(ev, args, kwargs, fr, node):
    a, b = args[0], args[1]
    ev.trace.append(("allclose", a, b, node, fr.fi.qualname if fr is not None and fr.fi is not None else None))
    # explicit sequences of plain numbers: the definition, element by element (np.allclose = all(np.isclose))
    seq = lambda v: h_array(ev, [v], {}, fr, node) if isinstance(v, (TupleV, ListV)) else v  # noqa: E731
    if getattr(ev, "debug_allclose", False):
        print("ALLCLOSE", repr(a)[:300], "||", repr(b)[:300])
    if isinstance(a, (TupleV, ListV, NdArr)) and isinstance(b, (TupleV, ListV, NdArr)) and not kwargs.get("_from_isclose"):
        a2, b2 = seq(a), seq(b)

        def tidy(arr):      # units that cancel (Hz * (t/Hz)) are expanded away before the operands are looked at
            if not isinstance(arr, NdArr):
                return arr
            out_ = NdArr(arr.shape, [e.like(sp.expand(e.expr)) if isinstance(e, Num) and (e.expr.free_symbols & UNIT_SYMS) else e for e in arr.items])
            out_.dtype = getattr(arr, "dtype", None)
            return out_
        a2, b2 = tidy(a2), tidy(b2)
        if isinstance(a2, NdArr) and isinstance(b2, NdArr) and all(isinstance(e, Num) and not (e.expr.free_symbols & UNIT_SYMS) and e.kind in ("number", "array")
                                                                    for e in list(a2.items) + list(b2.items)):
            r = h_isclose(ev, [a2, b2] + list(args[2:]), {k_: v_ for k_, v_ in kwargs.items() if k_ in ("rtol", "atol")}, fr, node)
            conds = []
            for e in r.items:
                if isinstance(e, BoolV):
                    if not e.b:
                        return BoolV(False)
                    continue
                conds.append(e.expr)
            return BoolV(True) if not conds else CondV(sp.And(*conds))
    if isinstance(a, NdArr):
        conds = [sp.Ne(F["Allclose"](e.expr, b.expr), 0) for e in a.items]
        return CondV(sp.And(*conds))
    return CondV(sp.Ne(F["Allclose"](a.expr, b.expr), 0))


def h_isclose(ev, args, kwargs, fr, node):
    """np.isclose(a, b, rtol=1e-5, atol=1e-8): |a - b| <= atol + rtol*|b|, elementwise; decided for concrete numbers."""
    a, b = args[0], args[1]
    rtol = kwargs.get("rtol", args[2] if len(args) > 2 else Num(sp.Rational(1, 10**5)))
    atol = kwargs.get("atol", args[3] if len(args) > 3 else Num(sp.Rational(1, 10**8)))
    if isinstance(a, NdArr) or isinstance(b, NdArr):
        shape, pairs = nd_pairs(ev, a, b, node, fr)
        return NdArr(shape, [h_isclose(ev, [x, y, rtol, atol], {}, fr, node) for x, y in pairs])
    if isinstance(a, Num) and isinstance(b, Num) and a.expr.is_number and b.expr.is_number and isinstance(rtol, Num) and isinstance(atol, Num) \
            and rtol.expr.is_number and atol.expr.is_number and a.expr.is_real and b.expr.is_real:
        return BoolV(bool(sp.Abs(a.expr - b.expr) <= atol.expr + rtol.expr * sp.Abs(b.expr)))
    if isinstance(a, Num) and isinstance(b, Num) and isinstance(rtol, Num) and isinstance(atol, Num) \
            and a.kind in ("number", "array") and b.kind in ("number", "array") and not (a.expr.free_symbols | b.expr.free_symbols) & UNIT_SYMS \
            and a.tag != "data" and b.tag != "data":
        # the definition itself, as a relational term: the window is RELATIVE to |b| unless rtol is given as 0
        ev.trace.append(("isclose-window", a, b, rtol, atol, node))
        bexpr, shape, axes = broadcast(ev, a, b)
        rel = sp.Le(sp.Abs(a.expr - bexpr), atol.expr + rtol.expr * sp.Abs(bexpr))
        if shape:
            return Num(rel, kind="bool", shape=shape, axes=axes)
        return CondV(rel)
    return h_allclose(ev, args, kwargs, fr, node)


def h_iscomplexobj(ev, args, kwargs, fr, node):
    x = args[0]
    if isinstance(x, (Num, StackV)) and getattr(x, "is_complex", None) is not None:
        return BoolV(x.is_complex)
    dt = getattr(x, "dtype", None)
    if isinstance(dt, ExtV):
        if "complex" in dt.dotted:
            return BoolV(True)
        if "float" in dt.dotted or "int" in dt.dotted or "bool" in dt.dotted:
            return BoolV(False)
    if isinstance(x, NdArr):
        if all(isinstance(e, Num) and e.expr.is_real for e in x.items) and x.items:
            return BoolV(False)
        ev.unsupported("np.iscomplexobj of an explicit array of undetermined kind", node, fr)
    if not isinstance(x, Num):
        ev.unsupported(f"np.iscomplexobj({x!r})", node, fr)
    return CondV(sp.Ne(sp.Function("IsComplex")(x.expr), 0))


def h_delayed(ev, args, kwargs, fr, node):
    return OpaqueV("delayed", {"func": args[0], "kwargs": kwargs})


def h_from_delayed(ev, args, kwargs, fr, node):
    v = args[0]
    if not (isinstance(v, OpaqueV) and v.what == "delayed-call"):
        ev.unsupported("from_delayed of a non-delayed value", node, fr)
    res = v.payload["result"]
    ev.trace.append(("from_delayed", res, kwargs.get("dtype"), kwargs.get("shape"), node))
    nm = kwargs.get("name") or v.payload.get("delayed_kwargs", {}).get("name") or v.payload["kwargs"].get("dask_key_name")
    if nm is not None and not isinstance(nm, NoneV):
        ev.trace.append(("dask-name", nm, res, node))
    if isinstance(res, Num):
        return res.like(res.expr, backend="dask", unit=res.unit)
    return res


DASK_ONLY_KW = {"dtype", "chunks", "drop_axis", "new_axis", "meta", "name", "token", "enforce_ndim", "concatenate", "align_arrays"}


def h_map_blocks(ev, args, kwargs, fr, node):
    func, x = args[0], args[1]
    fkw = {k: v for k, v in kwargs.items() if k not in DASK_ONLY_KW}
    res = ev.apply(func, [x] + list(args[2:]), fkw, fr, node)
    ev.trace.append(("map_blocks", res, {k: v for k, v in kwargs.items() if k in DASK_ONLY_KW}, node))
    decl = kwargs.get("dtype")
    if isinstance(res, Num):
        res = res.like(res.expr, unit=res.unit, backend="dask", tag=res.tag, dtype=decl if isinstance(decl, ExtV) else res.dtype)
    return res


def h_tokenize(ev, args, kwargs, fr, node):
    exprs = []
    for a in args:
        exprs.append(a.expr if isinstance(a, Num) else sp.Symbol("tok_" + type(a).__name__ + "_" + str(getattr(a, "s", getattr(a, "dotted", "")))[:30]))
    return Num(sp.Function("Token")(*exprs), kind="number", tag="token")


def h_fft_wrap(ev, args, kwargs, fr, node):
    inner = args[0]
    extra = {k: v for k, v in kwargs.items()}
    if len(args) > 1:
        extra["kind"] = args[1]

    def wrapped(ev2, a, k, fr2, node2):
        ev2.trace.append(("fft_wrap", inner, list(a), dict(k), extra))
        res = ev2.apply(inner, a, k, fr2, node2)
        if isinstance(res, Num):
            res = res.like(res.expr, unit=res.unit, backend="dask", tag=res.tag)
        return res
    return PyFuncV(wrapped, "fft_wrapped")


def h_nullcontext(ev, args, kwargs, fr, node):
    return OpaqueV("nullcontext")


def h_super(ev, args, kwargs, fr, node):
    # super() inside a method: find `self` and the defining class
    f = fr
    while f is not None and (f.fi is None or f.fi.cls is None):
        f = f.closure
    if f is None:
        ev.unsupported("super() outside a method", node, fr)
    ps = f.fi.params()
    self_val = f.env.get(ps[0][0])
    return SuperV(f.fi.cls, self_val)


class HandleV(Val):
    """Model of a baseband StreamReader: attribute table plus a log of seek/read calls."""
    def __init__(self, attrs, sample_shape, dtype, log):
        self.attrs, self.sample_shape, self.dtype, self.log = attrs, sample_shape, dtype, log
        self.pos = None
        self.closed = False


class HeaderV(DictV):
    def __init__(self, d, attrs):
        super().__init__(d)
        self.hattrs = attrs


def handle_getattr(ev, h, name, fr, node):
    if name in h.attrs:
        return h.attrs[name]
    if name in ("seek", "read", "close", "tell", "__enter__", "__exit__"):
        return BoundBuiltin(h, name)
    from .symeval import Raised
    raise Raised("AttributeError", node, f"stream reader has no attribute {name}")


def handle_method(ev, h, name, args, kwargs, fr, node):
    if name == "seek":
        h.pos = args[0]
        h.log.append(("seek", args[0], id(h)))
        return args[0]
    if name == "read":
        cnt = args[0]
        if h.pos is None:
            h.log.append(("read-without-seek", cnt, id(h)))
            pos = Num(sp.Symbol("UNSOUGHT"))
        else:
            pos = h.pos
        h.log.append(("read", pos, cnt, id(h)))
        h.pos = None
        shape = (cnt.expr,) + tuple(h.sample_shape)
        return Num(F["Opq"](sp.Symbol("FileData"), pos.expr, cnt.expr), kind="array", shape=shape, tag="data",
                   dtype=h.dtype, backend="numpy")
    if name == "tell":
        return h.pos if h.pos is not None else Num(0)
    return NONE


def h_baseband_open(ev, args, kwargs, fr, node):
    fm = getattr(ev, "file_model", None)
    if fm is None:
        ev.unsupported("baseband.open without a file model", node, fr)
    return fm(ev, args, kwargs)


class PolyV(Val):
    """numpy.polynomial.Polynomial: coefficients in the mapped variable u = off + scl*x (domain -> window)."""
    X = sp.Symbol("x_poly", real=True)

    def __init__(self, coeffs, domain=(-1, 1), window=(-1, 1)):
        self.coeffs = [sp.sympify(c) for c in coeffs]
        self._views = {}          # "domain"/"window" -> the ndarray object handed out for it (writes through it reach the polynomial)
        self.domain = tuple(sp.sympify(d) for d in domain)
        self.window = tuple(sp.sympify(w) for w in window)

    def _get(self, which):
        v = self._views.get(which)
        if v is not None:
            return tuple(i.expr for i in v.items)
        return self.__dict__["_" + which]

    def _set(self, which, val):
        self.__dict__["_" + which] = tuple(val)
        self._views.pop(which, None)      # a newly assigned array: earlier views no longer belong to this polynomial

    domain = property(lambda self: self._get("domain"), lambda self, v: self._set("domain", v))
    window = property(lambda self: self._get("window"), lambda self, v: self._set("window", v))

    def view_of(self, which):
        """The ndarray object `p.domain` / `p.window`: the SAME object on every read, so that in-place arithmetic and out= writes
        on it change the polynomial, as they do in NumPy."""
        v = self._views.get(which)
        if v is None:
            d_ = self._get(which)
            v = NdArr((2,), [Num(d_[0], isfloat=True), Num(d_[1], isfloat=True)])
            self._views[which] = v
        return v

    def expr(self, x=None):
        x = self.X if x is None else x
        a, b = self.domain
        w0, w1 = self.window
        u_ = (x - a) / (b - a) * (w1 - w0) + w0
        return sum((c * u_ ** i for i, c in enumerate(self.coeffs)), sp.Integer(0))

    def converted(self):
        e = sp.expand(self.expr())
        poly = sp.Poly(e, self.X) if e.has(self.X) else None
        cs = list(reversed(poly.all_coeffs())) if poly is not None else [e]
        return PolyV(cs)

    def __repr__(self):
        return f"PolyV({self.coeffs}, domain={self.domain})"


def h_polynomial(ev, args, kwargs, fr, node):
    c = args[0]
    if isinstance(c, NdArr):
        cs = [x.expr for x in c.items]
    elif isinstance(c, (ListV, TupleV)):
        cs = [x.expr for x in c.items]
    else:
        ev.unsupported("Polynomial of symbolic-length coefficients", node, fr)
    dom = kwargs.get("domain", args[1] if len(args) > 1 else None)
    win = kwargs.get("window", args[2] if len(args) > 2 else None)
    g = lambda v: tuple(x.expr for x in ev.iterate(v, fr, node)) if v is not None and not isinstance(v, NoneV) else (-1, 1)  # noqa: E731
    return PolyV(cs, g(dom), g(win))


def poly_method(ev, p_, name, args, kwargs, fr, node):
    if name == "convert":
        if args or kwargs:
            ev.unsupported("Polynomial.convert with arguments", node, fr)
        return p_.converted()
    if name == "copy":
        return PolyV(p_.coeffs, p_.domain, p_.window)
    if name == "deriv":
        m = ev.concrete_int(args[0]) if args else 1
        if m is None:
            m_expr = args[0].expr
            return OpaqueV("poly-deriv", (p_, m_expr))
        e = p_.expr()
        for _ in range(m):
            e = sp.diff(e, PolyV.X)
        q = PolyV([e])
        q._direct = e
        return DerivedPoly(e)
    ev.unsupported(f"Polynomial.{name}", node, fr)


class DerivedPoly(PolyV):
    def __init__(self, e):
        super().__init__([0])
        self._e = e

    def expr(self, x=None):
        return self._e if x is None else self._e.subs(PolyV.X, x)


class SuperV(Val):
    def __init__(self, cls, self_val):
        self.cls, self.self_val = cls, self_val


def super_getattr(ev, s: SuperV, name, fr, node):
    for b in s.cls.mro()[1:]:
        if name in b.methods:
            return FuncV(b.methods[name], bound=s.self_val)
    if name == "__init__":
        return ExtV("builtins.object.__init__")
    ev.unsupported(f"super().{name}", node, fr)


EXT = {
    "builtins.len": h_len, "builtins.int": h_int, "operator.index": h_index, "builtins.isinstance": h_isinstance,
    "builtins.getattr": h_getattr, "builtins.hasattr": h_hasattr, "builtins.setattr": h_setattr, "builtins.type": h_type,
    "builtins.issubclass": h_issubclass, "inspect.signature": h_signature, "builtins.tuple": h_tuple,
    "builtins.list": h_list, "builtins.dict": h_dict, "builtins.range": h_range, "builtins.zip": h_zip,
    "builtins.enumerate": h_enumerate, "builtins.all": h_all,
    "builtins.any": lambda ev, a, k, fr, n: h_all(ev, a, k, fr, n, any_=True),
    "builtins.slice": h_slice, "builtins.min": _minmax(sp.Min), "builtins.max": _minmax(sp.Max),
    "builtins.abs": h_abs, "builtins.sum": h_sum, "builtins.super": h_super,
    "builtins.float": lambda ev, a, k, fr, n: h_float(ev, a, k, fr, n),
    "builtins.bool": lambda ev, a, k, fr, n: (lambda t: BoolV(t) if t in (True, False) else CondV(t))(ev.truth(a[0], fr, n)),
    "builtins.str": lambda ev, a, k, fr, n: h_str(ev, a, k, fr, n),
    "numpy.vectorize": h_vectorize,
    "builtins.sorted": lambda ev, a, k, fr, n: h_sorted(ev, a, k, fr, n),
    "builtins.reversed": lambda ev, a, k, fr, n: ListV(list(reversed(ev.iterate(a[0], fr, n)))),
    "builtins.id": lambda ev, a, k, fr, n: Num(0), "builtins.hex": lambda ev, a, k, fr, n: StrV("0x0"),
    "builtins.round": h_round,
    "builtins.str.maketrans": lambda ev, a, k, fr, n: h_maketrans(ev, a, k, fr, n),
    "numpy.exp": _np_unary(sp.exp), "numpy.sqrt": _np_unary(sp.sqrt), "numpy.abs": _np_unary(sp.Abs, real=True),
    "numpy.absolute": _np_unary(sp.Abs, real=True), "numpy.floor": _np_unary(_lazy(sp.floor)), "numpy.ceil": _np_unary(_lazy(sp.ceiling)),
    "math.ceil": _np_unary(_lazy(sp.ceiling)), "math.floor": _np_unary(_lazy(sp.floor)), "math.sqrt": _np_unary(sp.sqrt),
    "numpy.conj": _np_unary(sp.conjugate), "numpy.conjugate": _np_unary(sp.conjugate),
    "numpy.real": _np_unary(sp.re, real=True), "numpy.imag": _np_unary(sp.im, real=True), "numpy.sin": _np_unary(sp.sin),
    "numpy.cos": _np_unary(sp.cos), "numpy.square": _np_unary(lambda x: x ** 2), "numpy.sign": _np_unary(sp.sign),
    "numpy.round": h_round, "numpy.rint": h_round, "numpy.around": h_round,
    "numpy.min": _minmax(sp.Min), "numpy.max": _minmax(sp.Max), "numpy.amin": _minmax(sp.Min),
    "numpy.amax": _minmax(sp.Max), "numpy.minimum": _elementwise2(_minmax(sp.Min)), "numpy.maximum": _elementwise2(_minmax(sp.Max)),
    "numpy.arange": h_arange, "dask.array.arange": lambda ev, a, k, fr, n: h_arange(ev, a, k, fr, n, backend="dask"),
    "numpy.fft.fftfreq": h_fftfreq, "numpy.fft.rfftfreq": h_rfftfreq,
    "dask.array.fft.rfftfreq": lambda ev, a, k, fr, n: h_rfftfreq(ev, a, k, fr, n, backend="dask"),
    "dask.array.fft.fftfreq": lambda ev, a, k, fr, n: h_fftfreq(ev, a, k, fr, n, backend="dask"),
    "builtins.object": lambda ev, a, k, fr, n: OpaqueV("object"),          # object(): a fresh sentinel, identical to itself only
    "numpy.isinf": lambda ev, a, k, fr, n: h_isinf(ev, a, k, fr, n), "math.isinf": lambda ev, a, k, fr, n: h_isinf(ev, a, k, fr, n),
    "numpy.may_share_memory": lambda ev, a, k, fr, n: h_may_share(ev, a, k, fr, n), "numpy.shares_memory": lambda ev, a, k, fr, n: h_may_share(ev, a, k, fr, n),
    "numpy.zeros_like": lambda ev, a, k, fr, n: h_zeros_like(ev, a, k, fr, n, 0), "numpy.ones_like": lambda ev, a, k, fr, n: h_zeros_like(ev, a, k, fr, n, 1),
    "numpy.empty_like": lambda ev, a, k, fr, n: h_zeros_like(ev, a, k, fr, n, 0),
    "numpy.zeros": h_zeros, "numpy.ones": lambda ev, a, k, fr, n: h_zeros(ev, a, k, fr, n, fill=1),
    "astropy.time.utils.two_sum": lambda ev, a, k, fr, n: h_two_sum(ev, a, k, fr, n),
    "astropy.time.utils.two_product": lambda ev, a, k, fr, n: h_two_product(ev, a, k, fr, n),
    "numpy.nonzero": lambda ev, a, k, fr, n: h_nonzero(ev, a, k, fr, n), "numpy.flatnonzero": lambda ev, a, k, fr, n: h_nonzero(ev, a, k, fr, n, flat=True),
    "numpy.roll": lambda ev, a, k, fr, n: h_roll(ev, a, k, fr, n),
    "numpy.expand_dims": lambda ev, a, k, fr, n: h_expand_dims(ev, a, k, fr, n), "numpy.take_along_axis": lambda ev, a, k, fr, n: h_take_along_axis(ev, a, k, fr, n),
    "builtins.format": lambda ev, a, k, fr, n: h_builtin_format(ev, a, k, fr, n),
    "numpy.full": lambda ev, a, k, fr, n: h_full(ev, a, k, fr, n), "numpy.tensordot": lambda ev, a, k, fr, n: h_tensordot(ev, a, k, fr, n),
    "numpy.shape": lambda ev, a, k, fr, n: h_np_shape(ev, a, k, fr, n), "numpy.broadcast_shapes": lambda ev, a, k, fr, n: h_broadcast_shapes(ev, a, k, fr, n),
    "numpy.unravel_index": lambda ev, a, k, fr, n: h_unravel_index(ev, a, k, fr, n),
    "numpy.can_cast": lambda ev, a, k, fr, n: h_can_cast(ev, a, k, fr, n),
    "numpy.signbit": lambda ev, a, k, fr, n: h_signbit(ev, a, k, fr, n), "numpy.issubdtype": lambda ev, a, k, fr, n: h_issubdtype(ev, a, k, fr, n),
    "numpy.result_type": lambda ev, a, k, fr, n: h_result_type(ev, a, k, fr, n), "dask.array.result_type": lambda ev, a, k, fr, n: h_result_type(ev, a, k, fr, n),
    "numpy.array": lambda ev, a, k, fr, n: h_array(ev, a, k, fr, n, strip=True, default_copy=True),
    "numpy.asarray": lambda ev, a, k, fr, n: h_array(ev, a, k, fr, n, strip=True),
    "numpy.asanyarray": h_array,
    "dask.array.asanyarray": lambda ev, a, k, fr, n: a[0].like(a[0].expr, backend="dask") if isinstance(a[0], Num) else a[0],
    "dask.array.asarray": lambda ev, a, k, fr, n: a[0].like(a[0].expr, backend="dask") if isinstance(a[0], Num) else a[0],
    "numpy.stack": h_stack, "numpy.concatenate": h_concatenate, "numpy.moveaxis": h_moveaxis, "numpy.swapaxes": h_swapaxes, "numpy.flip": h_flip, "numpy.take": h_take, "numpy.nditer": h_nditer, "numpy.broadcast_to": h_broadcast_to,
    "numpy.prod": h_prod, "math.prod": h_prod, "numpy.where": h_where, "dask.array.where": h_where, "numpy.bool_": h_bool_,
    "numpy.allclose": h_allclose, "numpy.isclose": h_isclose, "numpy.iscomplexobj": h_iscomplexobj,
    "numpy.fft.fftshift": _shift_like("FFTSHIFT"), "numpy.fft.ifftshift": _shift_like("IFFTSHIFT"),
    "astropy.units.Quantity": h_quantity, "astropy.coordinates.Angle": lambda ev, a, k, fr, n: h_quantity(ev, a, k, fr, n, angle=True),
    "astropy.coordinates.Longitude": lambda ev, a, k, fr, n: h_quantity(ev, a, k, fr, n, angle=True),
    "numpy.result_type": lambda ev, a, k, fr, n: h_result_type(ev, a, k, fr, n),
    "numpy.promote_types": lambda ev, a, k, fr, n: h_result_type(ev, a, k, fr, n),
    "numpy.empty": lambda ev, a, k, fr, n: h_zeros(ev, a, k, fr, n),
    "functools.reduce": lambda ev, a, k, fr, n: h_reduce(ev, a, k, fr, n),
    "builtins.set": lambda ev, a, k, fr, n: SetV(ev.iterate(a[0], fr, n) if a else []),
    "builtins.frozenset": lambda ev, a, k, fr, n: SetV(ev.iterate(a[0], fr, n) if a else []),
    "numpy.finfo": lambda ev, a, k, fr, n: h_finfo(ev, a, k, fr, n),
    "numpy.squeeze": lambda ev, a, k, fr, n: h_squeeze(ev, a, k, fr, n), "numpy.ndenumerate": lambda ev, a, k, fr, n: h_ndenumerate(ev, a, k, fr, n),
    "numpy.cumsum": lambda ev, a, k, fr, n: h_cumsum(ev, a, k, fr, n), "numpy.ndindex": lambda ev, a, k, fr, n: h_ndindex(ev, a, k, fr, n),
    "dataclasses.asdict": h_asdict, "operator.itemgetter": h_itemgetter, "operator.attrgetter": h_attrgetter,
    "operator.or_": lambda ev, a, k, fr, n: binop(ev, ast.BitOr(), a[0], a[1], n, fr),
    "operator.and_": lambda ev, a, k, fr, n: binop(ev, ast.BitAnd(), a[0], a[1], n, fr),
    "numpy.searchsorted": lambda ev, a, k, fr, n: Num(F["Searchsorted"](a[0].expr, a[1].expr), kind="number", tag="index"),
    "numpy.lexsort": lambda ev, a, k, fr, n: (ev.trace.append(("lexsort", k.get("keys", a[0] if a else NONE), k.get("axis", a[1] if len(a) > 1 else NONE), n)),
                                              Num(sp.Function("Lexsort")(*[x.expr if isinstance(x, Num) else sp.Symbol("key") for x in ev.iterate(k.get("keys", a[0] if a else NONE), fr, n)])))[1],
    "numpy.unique": lambda ev, a, k, fr, n: h_unique(ev, a, k, fr, n),
    "numpy.count_nonzero": lambda ev, a, k, fr, n: Num(sp.Function("CountNonzero")(a[0].expr)),
    "numpy.all": h_npall, "numpy.any": lambda ev, a, k, fr, n: h_npall(ev, a, k, fr, n, any_=True),
    "astropy.time.TimeDelta": h_timedelta, "astropy.time.Time": h_time, "astropy.time.Time.isclose": h_isclose_time,
    "astropy.units.isclose": h_isclose_q, "astropy.units.allclose": h_isclose_q,
    "dask.delayed": h_delayed, "dask.base.tokenize": h_tokenize, "dask.tokenize": h_tokenize, "dask.array.from_delayed": h_from_delayed, "dask.array.map_blocks": h_map_blocks,
    "contextlib.nullcontext": h_nullcontext, "baseband.open": h_baseband_open, "numpy.polynomial.Polynomial": h_polynomial,
    "functools.wraps": lambda ev, a, k, fr, n: OpaqueV("decorator"),
    "functools.singledispatch": lambda ev, a, k, fr, n: DispatchV(a[0]),
    "dask.array.fft.fft_wrap": lambda ev, a, k, fr, n: h_fft_wrap(ev, a, k, fr, n),
}
for _nm in ("fft", "fft2", "fftn", "rfft", "rfft2", "rfftn", "hfft"):
    EXT["scipy.fft." + _nm] = _fft_like("FFT" if _nm == "fft" else "FFT_" + _nm)
    EXT["pulsarbat.fft." + _nm] = EXT["scipy.fft." + _nm]
for _nm in ("ifft", "ifft2", "ifftn", "irfft", "irfft2", "irfftn", "ihfft"):
    EXT["scipy.fft." + _nm] = _fft_like("IFFT" if _nm == "ifft" else "IFFT_" + _nm)
    EXT["pulsarbat.fft." + _nm] = EXT["scipy.fft." + _nm]
for _k in list(F):
    pass
for _nm in ("FFT_fft2", "FFT_fftn", "FFT_rfft", "FFT_rfft2", "FFT_rfftn", "FFT_hfft", "IFFT_ifft2", "IFFT_ifftn",
            "IFFT_irfft", "IFFT_irfft2", "IFFT_irfftn", "IFFT_ihfft"):
    F[_nm] = sp.Function(_nm)

EXC_NAMES = {"ValueError", "TypeError", "IndexError", "KeyError", "AttributeError", "Exception", "AssertionError",
             "EOFError", "NotImplementedError", "RuntimeError", "OSError", "ImportError", "StopIteration"}


NP_UFUNCS = {"add": (2, 1), "subtract": (2, 1), "multiply": (2, 1), "divide": (2, 1), "true_divide": (2, 1), "floor_divide": (2, 1),
             "remainder": (2, 1), "mod": (2, 1), "divmod": (2, 2), "negative": (1, 1), "positive": (1, 1), "fabs": (1, 1),
             "rint": (1, 1), "tan": (1, 1), "spacing": (1, 1), "equal": (2, 1), "not_equal": (2, 1), "less": (2, 1),
             "less_equal": (2, 1), "greater": (2, 1), "greater_equal": (2, 1), "matmul": (2, 1), "modf": (1, 2)}


def call_ext(ev, fn: ExtV, args, kwargs, fr, node):
    d = fn.dotted
    ev.__dict__.setdefault("api_used", set()).add(d)
    if d.startswith("numpy.") and d[6:] in NP_UFUNCS and (d not in EXT or any(isinstance(a, ObjV) for a in args)):
        nin, nout = NP_UFUNCS[d[6:]]
        uf = ExtV(f"ufunc:{d[6:]}:{nin}:{nout}")
        objs = [a for a in args if isinstance(a, ObjV)] + [v for v in ([kwargs.get("out")] if isinstance(kwargs.get("out"), ObjV) else [])]
        if objs:
            m = objs[0].cls.find_method("__array_ufunc__")
            if m is None:
                ev.unsupported("ufunc applied to an object without __array_ufunc__", node, fr)
            kw = dict(kwargs)
            if "out" in kw and not isinstance(kw["out"], (TupleV, NoneV)):
                kw["out"] = TupleV([kw["out"]])       # numpy always passes out as a tuple
            return ev.call(m, [uf, StrV("__call__")] + list(args), kw, self_val=objs[0], depth=fr.depth + 1)
        return call_ext(ev, uf, args, kwargs, fr, node)
    if d.startswith("ufunc:"):
        _, name, nin, nout = d.split(":")
        ev.trace.append(("ufunc-call", name, list(args), {k_: (TupleV(list(v_.items)) if isinstance(v_, TupleV) else v_) for k_, v_ in kwargs.items()}, node))
        outs = kwargs.get("out")
        res = []
        for k in range(int(nout)):
            given = outs.items[k] if isinstance(outs, TupleV) and k < len(outs.items) else NONE
            if k == 0 and outs is not None and not isinstance(outs, (TupleV, NoneV)):
                given = outs            # out=array is shorthand for out=(array,)
            if not isinstance(given, NoneV):
                if isinstance(given, Num) and given.backend == "dask":
                    # Dask does not write into an out= array: it re-points the array object at the result (graph, chunks, meta --
                    # hence dtype); its multi-output functions (modf, frexp, divmod) accept no out= at all
                    if int(nout) > 1:
                        from .symeval import Raised
                        raise Raised("TypeError", node, f"{name}() got an unexpected keyword argument 'out'")
                    rd = ufunc_result_dtype(name, args, {k_: v_ for k_, v_ in kwargs.items() if k_ != "out"})
                    if rd is not None:
                        given.dtype = rd
                    ev.trace.append(("dask-out-rebound", name, given))
                elif isinstance(given, NdArr) and name in _ARITH_UFUNCS and len(args) == 2 and int(nout) == 1 and \
                        any(isinstance(a, Num) and a.shape for a in args):
                    # an explicit (small, concrete) scratch array receiving the product of symbolic arrays: afterwards it holds a OP b
                    written = binop(ev, _ARITH_UFUNCS[name], args[0], args[1], node, fr)
                    if fr is not None and getattr(fr, "env", None) is not None:
                        ev._rebind_aliases(fr, given, written)
                    ev.trace.append(("out-written", name, given, written))
                    given = written
                elif isinstance(given, NdArr) and name in _ARITH_UFUNCS and len(args) == 2 and int(nout) == 1:
                    # an explicit array as out=: the elementwise result is stored into that very array (explicit arrays model
                    # their own stores)
                    shape_, pairs_ = nd_pairs(ev, args[0], args[1], node, fr)
                    if tuple(shape_) != tuple(given.shape):
                        from .symeval import Raised
                        raise Raised("ValueError", node, "non-broadcastable output operand")
                    given.items[:] = [binop(ev, _ARITH_UFUNCS[name], x_, y_, node, fr) for x_, y_ in pairs_]
                elif isinstance(given, Num) and given.tag != "unit":
                    # NumPy writes the result into the given array and hands that very array back: same object, new contents
                    # (values are immutable in this evaluator: the written array is a new value that replaces the old one in
                    # every binding of the calling frame, exactly as for an in-place operator)
                    exprs = [a.expr if isinstance(a, Num) else sp.Symbol("arg_" + type(a).__name__) for a in args]
                    term = sp.Function(f"Ufunc_{name}_{k}")(*exprs)
                    arith_val = None
                    if given.tag == "filled" and name in _ARITH_UFUNCS and len(args) == 2 and int(nout) == 1 and all(isinstance(a, Num) for a in args):
                        # a scratch array made by np.empty / np.zeros as target of plain arithmetic: afterwards it holds a OP b
                        try:
                            val_ = binop(ev, _ARITH_UFUNCS[name], args[0], args[1], node, fr)
                            if isinstance(val_, Num):
                                term = val_.expr
                                arith_val = val_
                        except Exception:
                            pass
                    written = given.like(term, unit=given.unit, dtype=given.dtype)
                    if arith_val is not None:
                        written.axes = arith_val.axes        # the element indices of the computed contents
                        if arith_val.shape is not None:
                            written.shape = arith_val.shape
                    if fr is not None and getattr(fr, "env", None) is not None:
                        ev._rebind_aliases(fr, given, written)
                    ev.trace.append(("out-written", name, given, written))
                    given = written
                res.append(given)       # numpy returns the given out array itself
            else:
                exprs = [a.expr if isinstance(a, Num) else sp.Symbol("arg_" + type(a).__name__) for a in args]
                res.append(Num(sp.Function(f"Ufunc_{name}_{k}")(*exprs), tag="data",
                               kind="quantity" if any(isinstance(a, Num) and a.kind == "quantity" and a.tag != "unit" for a in args) else "array",
                               shape=_ufunc_broadcast_shape(args),
                               dtype=ufunc_result_dtype(name, args, kwargs),
                               backend=next((a.backend for a in args if isinstance(a, Num) and a.backend), None)))
        return res[0] if int(nout) == 1 else TupleV(res)
    if d in EXT:
        try:
            return EXT[d](ev, args, kwargs, fr, node)
        except (AttributeError, KeyError, IndexError, TypeError, AssertionError) as e:
            ev.unsupported(f"the API-table entry for {d} cannot interpret these arguments ({type(e).__name__}: {e})", node, fr)
    if d.startswith("numpy.") and d.split(".")[-1] in NUMERIC_DTYPES:
        if not args:
            return Num(sp.Integer(0), dtype=ExtV(d), isfloat=not d.split(".")[-1].startswith(("int", "uint", "bool")))    # np.float32() is a zero of that type
        x = args[0]
        nm = d.split(".")[-1]
        if isinstance(x, StrV):
            return Num(token_number(x.s, integer=nm.startswith(("int", "uint"))))
        if nm in ("float32", "complex64", "float16") and isinstance(x, Num) and not (x.expr.is_integer and x.expr.is_number):
            # a scalar constructor of reduced precision: the value is no longer the exact term
            ev.trace.append(("precision-cast", nm, str(x.expr)))
            return x.like(sp.Function("Cast_" + nm)(x.expr))
        return x
    if d == "numpy.dtype":
        return args[0]
    if d == "builtins.object.__init__":
        return NONE
    if d.startswith("builtins.") and d.split(".")[-1] in EXC_NAMES:
        return OpaqueV("exception", d.split(".")[-1])
    ev.unsupported(f"external callable {d} is not in the API table", node, fr)


def construct_ext_subclass(ev, ci: ClassInfo, args, kwargs, fr, node):
    """DispersionMeasure(x) etc.: a Quantity subclass instance."""
    if "astropy.units.SpecificTypeQuantity" in ci.ext_base_names():
        x = args[0]
        du, _ = ci.find_class_attr("_default_unit")
        unit = ev.class_const(ci, "_default_unit", du) if du is not None else None
        if isinstance(x, Num) and x.kind == "quantity":
            return x.like(x.expr, cls=ci, unit=x.unit, kind="quantity")
        if isinstance(x, Num) and unit is not None:
            return Num(x.expr * unit.expr, kind="quantity", unit=unit.expr, cls=ci)
    ev.unsupported(f"construction of {ci.name}", node, fr)
