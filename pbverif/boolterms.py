"""Equality of Boolean terms over relational / opaque atoms by exhaustive truth table (finite)."""
from __future__ import annotations

import itertools
import sympy as sp


def atoms_of(e):
    out = set()

    def visit(x):
        if isinstance(x, (sp.And, sp.Or, sp.Not, sp.Xor, sp.Implies)):
            for a in x.args:
                visit(a)
        elif x in (sp.true, sp.false):
            return
        else:
            out.add(canon(x))
    visit(e)
    return out


def canon(x):
    if isinstance(x, sp.core.relational.Relational):
        c = x.canonical
        # represent  a < b  and  b > a, a >= b as Not(a < b) consistently
        if isinstance(c, (sp.Ge,)):
            return c
        return c
    return x


def subst(e, assign):
    if isinstance(e, (sp.And, sp.Or, sp.Not, sp.Xor, sp.Implies)):
        return e.func(*[subst(a, assign) for a in e.args])
    if e in (sp.true, sp.false):
        return e
    c = canon(e)
    if c in assign:
        return sp.true if assign[c] else sp.false
    neg = sp.Not(c)
    for k, v in assign.items():
        if k == neg or sp.Not(k) == c:
            return sp.false if v else sp.true
    return e


def bool_equal(f, g, max_atoms=10):
    """-> (True/False/None, witness-assignment)"""
    f, g = sp.sympify(f), sp.sympify(g)
    at = sorted(atoms_of(f) | atoms_of(g), key=str)
    # merge complementary atoms (a < b  vs  a >= b)
    base = []
    for a in at:
        if any(sp.Not(a) == b for b in base):
            continue
        base.append(a)
    if len(base) > max_atoms:
        return None, None
    for vals in itertools.product([False, True], repeat=len(base)):
        assign = dict(zip(base, vals))
        a, b = subst(f, assign), subst(g, assign)
        if a not in (sp.true, sp.false) or b not in (sp.true, sp.false):
            return None, {str(k): v for k, v in assign.items()}
        if a != b:
            return False, {str(k): v for k, v in assign.items()}
    return True, None
