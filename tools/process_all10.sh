#!/bin/bash
# validate every finished round-10 seed not yet processed
cd /tmp/wt/out10
for d in */; do d=${d%/}; [ -f $d/meta.json ] && [ -f $d/patch.diff ] && [ ! -d /verif/seeded/$d ] && ! grep -q "^$d " /tmp/wt/out10.processed 2>/dev/null && echo $d; done > /tmp/wt/todo7.txt
cat /tmp/wt/todo7.txt | OUTDIR=/tmp/wt/out10 xargs -P 6 -I{} /verif/tools/process_seed2.sh {} | tee -a /tmp/wt/out10.processed
