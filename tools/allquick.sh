#!/bin/bash
# run every claimed quick check against /repo (refreshes evidence); prints one line per property
cd /verif
for p in C01 C02 C03 C04 C05 C06 C07 C08 C09 C10 C11 C12 C13 C14 C15 C16 C17 C19 C20; do echo $p; done | xargs -P 8 -I{} bash -c './check {} < /dev/null | tail -1 | cut -c1-150; ' | sort
