#!/bin/bash
# validate every finished round-7 seed not yet processed
cd /tmp/wt/out9
for d in */; do d=${d%/}; [ -f $d/meta.json ] && [ -f $d/patch.diff ] && [ ! -d /verif/seeded/$d ] && ! grep -q "^$d " /tmp/wt/out9.processed 2>/dev/null && echo $d; done > /tmp/wt/todo7.txt
cat /tmp/wt/todo7.txt | OUTDIR=/tmp/wt/out9 xargs -P 6 -I{} /verif/tools/process_seed2.sh {} | tee -a /tmp/wt/out9.processed
