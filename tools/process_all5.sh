#!/bin/bash
# validate every finished round-5 seed not yet processed
cd /tmp/wt/out5
for d in */; do d=${d%/}; [ -f $d/meta.json ] && [ -f $d/patch.diff ] && [ ! -d /verif/seeded/$d ] && ! grep -q "^$d " /tmp/wt/out5.processed 2>/dev/null && echo $d; done > /tmp/wt/todo5.txt
cat /tmp/wt/todo5.txt | OUTDIR=/tmp/wt/out5 xargs -P 6 -I{} /verif/tools/process_seed2.sh {} | tee -a /tmp/wt/out5.processed
