#!/venv/bin/python
"""Materialise one self-test mutant on a scratch copy, show its diff and run checks on it.

usage: tools/mutant.py <pid> <substring of mutant description | index> [<check ids>...]  [--n 48] [--seed 0]
"""
import difflib
import os
import shutil
import subprocess
import sys

sys.path.insert(0, os.path.dirname(os.path.dirname(os.path.abspath(__file__))))
from pbverif import selftest  # noqa: E402


def main():
    args = [a for a in sys.argv[1:] if not a.startswith("--")]
    opts = {}
    it = iter(sys.argv[1:])
    for a in it:
        if a.startswith("--"):
            opts[a[2:]] = next(it)
    args = [a for a in args if a not in opts.values()]
    pid, sel = args[0], args[1]
    checks = args[2:] or [pid]
    muts = selftest.mutants_for(pid, int(opts.get("seed", 0)), int(opts.get("n", 48)))
    if sel == "list":
        for i, (rel, src, desc) in enumerate(muts):
            print(i, desc)
        return
    chosen = [m for i, m in enumerate(muts) if (sel.isdigit() and i == int(sel)) or (not sel.isdigit() and sel in m[2])]
    occ = int(opts.get("occ", -1))
    if occ >= 0:
        chosen = chosen[occ:occ + 1]
    for rel, src, desc in chosen:
        print("=" * 100)
        print("MUTANT", desc)
        old = open(os.path.join(selftest.REPO, rel)).read()
        import ast
        old_n = ast.unparse(ast.parse(old))
        for l in difflib.unified_diff(old_n.splitlines(), src.splitlines(), lineterm="", n=1):
            if l.startswith(("+", "-")) and not l.startswith(("+++", "---")):
                print("   ", l)
        d = selftest._scratch()
        try:
            with open(os.path.join(d, rel), "w") as fh:
                fh.write(src)
            for c in checks:
                env = dict(os.environ, PBVERIF_NOEVIDENCE="1")
                p = subprocess.run([os.path.join(selftest.VERIF, "check"), c, "--repo", d], capture_output=True, text=True, env=env)
                lines = [l for l in p.stdout.splitlines() if ": rule " in l or l.startswith(("VIOLATION", "INCONCLUSIVE", "ANALYSIS"))]
                print(f"  {c}: exit {p.returncode}")
                for l in lines[:int(opts.get("lines", 6))]:
                    print("      ", l[:260])
        finally:
            shutil.rmtree(d, ignore_errors=True)


main()
