#!/bin/bash
# usage: validate_seed.sh <dir with patch.diff demo.py> -> prints "ID applies=.. demo_with=.. suite=.. demo_without=.."
D="$1"; ID=$(basename "$D")
W=/tmp/wt/val_$ID
git -C /repo worktree add -q --detach "$W" HEAD 2>/dev/null || { echo "$ID worktree-failed"; exit 1; }
cd "$W"
if git apply "$D/patch.diff" 2>/dev/null; then AP=yes; else AP=no; fi
if [ $AP = yes ]; then
  /venv/bin/python "$D/demo.py" >/tmp/wt/val_$ID.demo_with.log 2>&1; DW=$?
  SUITE=$(/venv/bin/python -m pytest -q -p no:cacheprovider --timeout=900 -x -q 2>&1 | tail -1)
  git checkout -q -- . ; git clean -fdq
  /venv/bin/python "$D/demo.py" >/tmp/wt/val_$ID.demo_without.log 2>&1; DO=$?
else DW=-; SUITE=-; DO=-; fi
cd /; git -C /repo worktree remove --force "$W"
echo "$ID applies=$AP demo_with_patch_exit=$DW suite=[$SUITE] demo_without_patch_exit=$DO"
