#!/bin/bash
# Runs every check against every seeded change (each on its own scratch copy of /repo/pulsarbat, outside /repo and /verif)
# and writes /verif/seeded/RESULTS.tsv : seed <TAB> check <TAB> exit code.
OUT=${OUT:-/verif/seeded/RESULTS.tsv}
TMPD=$(mktemp -d /tmp/pbv-matrix.XXXXXX)
one() {
  seed="$1"; chk="$2"; tmpd="$3"
  T="$tmpd/$seed.$chk"; mkdir -p "$T"; cp -r /repo/pulsarbat "$T/pulsarbat"; find "$T" -name __pycache__ -prune -exec rm -rf {} + 2>/dev/null
  ( cd "$T" && patch -s -p1 < /verif/seeded/$seed/patch.diff >/dev/null 2>&1 ) || { echo -e "$seed\t$chk\tpatch-failed"; rm -rf "$T"; return; }
  PBVERIF_NOEVIDENCE=1 PBVERIF_BUDGET_S=600 /verif/check "$chk" --repo "$T" >/dev/null 2>&1; rc=$?
  echo -e "$seed\t$chk\t$rc"; rm -rf "$T"
}
export -f one
CHECKS="${CHECKS:-C01 C02 C03 C04 C05 C06 C07 C08 C09 C10 C11 C12 C13 C14 C15 C16 C17 C19 C20}"
SEEDS="${SEEDS:-$(ls /verif/seeded | grep -v RESULTS)}"
for s in $SEEDS; do for c in $CHECKS; do echo "$s $c"; done; done | xargs -P ${JOBS:-14} -n 2 bash -c 'one "$0" "$1" '"$TMPD" | sort > "$OUT.new"
mv "$OUT.new" "$OUT"; rm -rf "$TMPD" /tmp/pbv-replay.* 2>/dev/null
python3 - <<'PY'
import collections
rows=[l.rstrip("\n").split("\t") for l in open(__import__("os").environ.get("OUT","/verif/seeded/RESULTS.tsv"))]
by=collections.defaultdict(dict)
for s,c,r in rows: by[s][c]=r
print("seed        own-check  detected-by(exit 1)                     inconclusive(exit 2)")
for s in sorted(by):
    own=s.split("_")[0] if s.startswith("C") else "-"
    det=[c for c,r in by[s].items() if r=="1"]; inc=[c for c,r in by[s].items() if r=="2"]; oth=[f"{c}:{r}" for c,r in by[s].items() if r not in("0","1","2")]
    print(f"{s:11s} {by[s].get(own,'-'):9s}  {','.join(sorted(det)):40s} {','.join(sorted(inc))} {' '.join(oth)}")
PY
