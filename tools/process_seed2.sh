#!/bin/bash
# usage: process_seed2.sh <ID>   (ID like C19_c; source dir /tmp/wt/out2/<ID>)
# validates the seeded change in a scratch worktree (applies; suite unchanged: 223 passed / 1 failed test_basic;
# demo fails with the patch, passes without) and, when confirmed, copies it to /verif/seeded/<ID>; then runs the
# property's own check against a scratch copy with the patch.
ID="$1"; D=${OUTDIR:-/tmp/wt/out2}/$ID; P=${ID%%_*}
[ -f "$D/patch.diff" ] || { echo "$ID: no patch"; exit 1; }
W=/tmp/wt/val_$ID
git -C /repo worktree add -q --detach "$W" HEAD 2>/dev/null || { echo "$ID worktree-failed"; exit 1; }
cd "$W"
if git apply "$D/patch.diff" 2>/dev/null; then AP=yes; else AP=no; fi
if [ $AP = yes ]; then
  timeout 600 /venv/bin/python "$D/demo.py" >/tmp/wt/val_$ID.with.log 2>&1; DW=$?
  OUT=$(/venv/bin/python -m pytest -q -p no:cacheprovider --timeout=900 2>&1)
  SUITE=$(echo "$OUT" | tail -1); FAILED=$(echo "$OUT" | grep "^FAILED" | cut -c1-80 | tr '\n' ' ')
  git checkout -q -- . ; git clean -fdq
  timeout 600 /venv/bin/python "$D/demo.py" >/tmp/wt/val_$ID.without.log 2>&1; DO=$?
else DW=-; SUITE=-; DO=-; fi
cd /; git -C /repo worktree remove --force "$W"
OK=no
if [ "$AP" = yes ] && [ "$DW" != 0 ] && [ "$DO" = 0 ] && echo "$SUITE" | grep -q "1 failed, 223 passed" && echo "$FAILED" | grep -q "test_phase_predictor.py::TestPolyco::test_basic\|test_basic"; then OK=yes; fi
echo "$ID applies=$AP demo_with=$DW demo_without=$DO suite=[$SUITE] failed=[$FAILED] confirmed=$OK"
if [ $OK = yes ]; then
  mkdir -p /verif/seeded/$ID
  cp "$D/patch.diff" "$D/demo.py" /verif/seeded/$ID/
  [ -f "$D/meta.json" ] && cp "$D/meta.json" /verif/seeded/$ID/meta.json
fi
