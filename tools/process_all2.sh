#!/bin/bash
# validate every finished round-2 seed not yet processed (needs meta.json = agent finished that one)
cd /tmp/wt/out2
for d in */; do d=${d%/}; [ -f $d/meta.json ] && [ -f $d/patch.diff ] && [ ! -d /verif/seeded/$d ] && ! grep -q "^$d " /tmp/wt/out2.processed 2>/dev/null && echo $d; done > /tmp/wt/todo2.txt
cat /tmp/wt/todo2.txt | xargs -P 6 -I{} /verif/tools/process_seed2.sh {} | tee -a /tmp/wt/out2.processed
