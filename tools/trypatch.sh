#!/bin/bash
# usage: tools/trypatch.sh <patch.diff> [-R] <Cxx> [<Cyy> ...]
# Applies the patch to a scratch copy of /repo/pulsarbat (outside /repo and /verif), runs the
# given checks against that copy and removes it.  Evidence files are NOT touched (PBVERIF_NOEVIDENCE).
P="$1"; shift
REV=""
if [ "$1" = "-R" ]; then REV="-R"; shift; fi
T=$(mktemp -d /tmp/pbv.XXXXXX)
cp -r /repo/pulsarbat "$T/pulsarbat"
find "$T" -name __pycache__ -prune -exec rm -rf {} +
( cd "$T" && patch -s -p1 $REV < "$P" ) || { echo "PATCH FAILED"; rm -rf "$T"; exit 3; }
for id in "$@"; do
  PBVERIF_NOEVIDENCE=1 /verif/check "$id" --repo "$T" | grep -E "^(VIOLATION|INCONCLUSIVE|ANALYSIS|KNOWN|  [a-z/_]+\.py|C[0-9]+ \[)" | cut -c1-260
  echo "  -> exit=${PIPESTATUS[0]}"
done
rm -rf "$T"
