#!/bin/bash
# usage: process_benign4.sh <ID>  (source /tmp/wt/bout4/<ID>): applies? suite baseline? then copy to seeded/benign_<ID> and run all 19 checks
ID="$1"; D=/tmp/wt/bout4/$ID
[ -f "$D/patch.diff" ] || { echo "$ID: no patch"; exit 1; }
W=/tmp/wt/valb_$ID
git -C /repo worktree add -q --detach "$W" HEAD 2>/dev/null || { echo "$ID worktree-failed"; exit 1; }
cd "$W"
if git apply "$D/patch.diff" 2>/dev/null; then AP=yes; else AP=no; fi
SUITE=-
if [ $AP = yes ]; then SUITE=$(/venv/bin/python -m pytest -q -p no:cacheprovider --timeout=900 2>&1 | tail -1); fi
cd /; git -C /repo worktree remove --force "$W"
OK=no; if [ $AP = yes ] && echo "$SUITE" | grep -q "1 failed, 223 passed"; then OK=yes; fi
RES=""
if [ $OK = yes ]; then
  mkdir -p /verif/seeded/benign_$ID; cp "$D/patch.diff" /verif/seeded/benign_$ID/; [ -f "$D/meta.json" ] && cp "$D/meta.json" /verif/seeded/benign_$ID/
  for c in C01 C02 C03 C04 C05 C06 C07 C08 C09 C10 C11 C12 C13 C14 C15 C16 C17 C19 C20; do
    r=$(/verif/tools/trypatch.sh /verif/seeded/benign_$ID/patch.diff $c | tail -1 | sed 's/.*exit=//')
    [ "$r" != 0 ] && RES="$RES $c:$r"
  done
fi
echo "$ID applies=$AP suite=[$SUITE] ok=$OK nonzero=[$RES]"
