#!/bin/bash
# validate every finished round-6 seed not yet processed
cd /tmp/wt/out6
for d in */; do d=${d%/}; [ -f $d/meta.json ] && [ -f $d/patch.diff ] && [ ! -d /verif/seeded/$d ] && ! grep -q "^$d " /tmp/wt/out6.processed 2>/dev/null && echo $d; done > /tmp/wt/todo6.txt
cat /tmp/wt/todo6.txt | OUTDIR=/tmp/wt/out6 xargs -P 6 -I{} /verif/tools/process_seed2.sh {} | tee -a /tmp/wt/out6.processed
