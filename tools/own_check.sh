#!/bin/bash
# usage: tools/own_check.sh <suffix-glob e.g. "[wx]">  -> for every seeded/Cxx_<suffix>: exit code of its own property's check
cd /verif
ls -d /verif/seeded/C??_$1 2>/dev/null | xargs -P 8 -I{} bash -c 'id=$(basename {}); p=${id%%_*}; out=$(tools/trypatch.sh {}/patch.diff $p 2>&1); ex=$(echo "$out" | grep -o "exit=[0-9]*" | tail -1); echo "$id $ex $(echo "$out" | grep -m1 -E "^(VIOLATION|INCONCLUSIVE|ANALYSIS)" | cut -c1-200)"' | sort
