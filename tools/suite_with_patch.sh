#!/bin/bash
D="$1"; ID=$(basename "$D"); W=/tmp/wt/val_$ID
git -C /repo worktree add -q --detach "$W" HEAD 2>/dev/null || { echo "$ID worktree-failed"; exit 1; }
cd "$W"; git apply "$D/patch.diff" || { echo "$ID apply-failed"; }
R=$(/venv/bin/python -m pytest -q -p no:cacheprovider --timeout=900 2>&1 | tail -1)
F=$(/venv/bin/python -m pytest -q -p no:cacheprovider --timeout=900 2>&1 | grep "^FAILED" | tr '\n' ' ')
cd /; git -C /repo worktree remove --force "$W"
echo "$ID suite=[$R] $F"
