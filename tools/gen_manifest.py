#!/usr/bin/env python3
"""Regenerates /verif/MANIFEST.json from the table below and the set of built checks."""
import json
import os

HERE = os.path.dirname(os.path.dirname(os.path.abspath(__file__)))

# id -> (technique, level text, level note, design ref)
CHECKS = {
    "C01": ("term normal forms of def-use slices (abstract interpretation over sympy terms) + interval/sign facts on slice bounds + ledger of cropping sites",
            "Decides, for every input, the time-metadata algebra of every cropping site (start_time' = start_time + start/sample_rate, sample_rate' = sample_rate/step, stop_time, dt, contains' Boolean form), that slice bounds entering formulas come from slice.indices, that a signal without start time never acquires one, and that computed signal-level slice bounds are clamped non-negative. Does not decide floating-point rounding of Time arithmetic.",
            "real-number semantics for formulas; API table for numpy/astropy; expected terms transcribed from the property statement", "4/C01"),
    "C02": ("term normal forms + affine index sequences", "Decides the channel-label formula for all three alignments and both parities, band edges, and that _freq_slice's re-centring reproduces the selected labels through the *extracted* label formula (writer and reader tied together); Stokes selection overrides nothing. Not decided: Quantity round-off.", "real-number semantics; sympy", "4/C02"),
    "C03": ("term normal forms + shape-kind/index-coverage analysis of the zero-fill loop", "Decides the phase-ramp term, FFT/IFFT pairing on axis 0, zero-fill extents (floor/ceil), coverage of every element of the sample shape by the zero-fill index, crop bounds and unchanged metadata. Not decided: DFT accuracy.", "API table; real-number semantics", "4/C03"),
    "C04": ("term normal forms + index-coverage analysis", "Decides the mixer term, transform pairing fft->fftshift->zeroing->ifftshift->ifft, zero-fill extents and coverage, unchanged metadata. Not decided: value accuracy.", "API table; real-number semantics", "4/C04"),
    "C05": ("term normal forms with units as algebra", "Decides the transfer-function term including units and the constant K, chirp plumbing (per-channel frequency, N, dt, reference), Dask/eager agreement of the chirp builder, crop terms and clamping. Not decided: complex64 accuracy.", "units as positive symbols; sympy", "4/C05"),
    "C06": ("term normal forms with units as algebra + loop-body dataflow", "Decides the delay law with units, derived antisymmetry/additivity, sample_delay, and the index identity of incoherent dedispersion (round before int cast, own-channel pairing, crop_before, start_time advance). Not decided: Quantity rounding.", "units as positive symbols; sympy", "4/C06"),
    "C07": ("provenance/taint of operands + branch dispatch table + exhaustive boolean case table", "Decides the routing and bookkeeping necessary for two-double results: no never-copy constructor on non-array operands, every ufunc family named in the statement has a branch built by from_angles from separate int/frac parts with no single-double collapse, factor/divisor forwarded into day_frac, and the real/imaginary sign table (i*i=-1). Not decided: error-free-transformation arithmetic itself.", "numpy>=2 copy=False semantics as probed; astropy API table", "4/C07"),
    "C08": ("term normal forms (polynomial identity) + CFG dominance of range guards + sibling-branch agreement + alias analysis of the predictor table", "Decides that from_polyco builds exactly the tempo polynomial (coefficient increments, 60*F0, domain scale, line count, D->E), that range checks dominate every evaluation, sibling scalar/array branches agree, derivative order and unit agree, the interval merge tolerance, and that prediction methods do not mutate the table. Not decided: 1e-8 accuracy, root finder convergence, merge-loop algorithm.", "numpy.polynomial.Polynomial(domain=) semantics from the API table", "4/C08"),
    "C09": ("laziness taint analysis (forcing sinks) + sibling agreement of Dask/NumPy dispatch branches", "Decides that no signal method/transform forces a possibly-Dask value (compute/np.asarray/truthiness/iteration) outside the sanctioned explicit points, that each back-end dispatch builds the same expression in both branches with agreeing declared dtype/shape, and that container helpers override nothing. Not decided: scheduler independence, chunk-layout acceptance, bitwise value equality.", "API table of dispatching vs forcing numpy functions, re-validated against installed dask/numpy by introspection", "4/C09"),
    "C10": ("CFG dominance of rejection guards + loop-body term rules + affine sequences", "Decides that every rejection guard named in the statement dominates the join and is universally quantified over all pieces, the contiguity term of the time loop (n advanced on every path), the frequency contiguity term, the re-centring identity and the override set. Not decided: isclose tolerances.", "astropy isclose semantics", "4/C10"),
    "C11": ("CFG dominance + same-value dataflow + effect analysis (statelessness) + constant agreement + axis-role permutation facts", "Decides that bounds guards dominate the read, the same normalised offset/n reach _read_data and time_at, time_at/offset_at formulas, no reading method writes reader state or lets the file handle escape (seek dominates read), the factor-2 agreement for real data, and reader axis permutations/sideband handling. Not decided: decoding inside baseband, real concurrency.", "baseband API table", "4/C11"),
    "C12": ("term normal forms + CFG dominance", "Decides normalisation of t in all three forms, the rejection guards, and that shift, new start and final slice compose to start_time + t/sample_rate with exactly n samples; integer t takes the plain slice. Not decided: interpolation accuracy.", "real-number semantics", "4/C12"),
    "C13": ("term normal forms over complex symbols", "Decides all conversion and Stokes identities over the complex numbers per syntactic branch (unitarity, inverse, basis independence, I^2=Q^2+U^2+V^2, I=sum of intensities, stacking order vs _stokes_ids, component selection axis). Not decided: float rounding.", "sympy", "4/C13"),
    "C14": ("inter-procedural may-alias (ownership) analysis with mutation sinks and function summaries", "Decides, for every input, that no library statement writes to anything that may alias an argument's object, buffer or metadata (the rule is the property for writes made by library code).", "view/copy table for numpy/astropy/dask; third-party code does not write its inputs unless listed", "4/C14"),
    "C15": ("non-reassociated expression-tree comparison + key-order rules + sibling idiom agreement", "Decides that comparisons difference the int and frac parts separately before adding, lexsort key order and exact remainder key, argmin/argmax part-wise subtraction, decimal-splitting idiom (partition) at both sites, and that from_string hands real arrays to the constructor for real strings. Not decided: digit-exactness of to_string.", "numpy.lexsort key order", "4/C15"),
    "C16": ("CFG dominance (validate-before-store) + who-may-write tables + signature/attribute agreement", "Decides that every metadata setter validates before storing and converts failures to ValueError, constructor checks dominate the data store, private fields are written only by their setter/constructor, baseband chan_bw is tied to sample_rate, like()'s copied names exist as readable properties, and no class customises pickling.", "astropy validators behave as documented", "4/C16"),
    "C17": ("CFG dominance + unwrap/rewrap dataflow + protocol signature rules", "Decides that the refusal guard dominates every use of inputs, inputs and outs are unwrapped, the ufunc is called once, results are rewrapped by like() of the first operand's type or returned as the given out object, and __array__ follows the NumPy protocol signature. Not decided: per-ufunc values.", "NumPy __array_ufunc__/__array__ protocol", "4/C17"),
    "C19": ("slot table + term normal forms + axis-discipline rules", "Decides the Hilbert weight table and its derived identity h[k]+h[N-k]=2, the mixer term, decimation slice, that one axis is used for every step, the dtype rule, and reader factor agreement. Not decided: FFT round-off.", "real-number semantics", "4/C19"),
    "C20": ("dispatch-table and closure dataflow rules + axis-role permutation facts + affine sequences", "Decides the fourteen-name table against installed scipy/dask (introspection of those libraries only), AttributeError for other names, lookup by the requested name, both dispatch bodies wrapping the same closure variable; STFT/ISTFT axis roles, merged channel order, sample-rate and label identities for both parities. Not decided: numerical equality with the reference transform.", "scipy.fft / dask.array.fft introspection", "4/C20"),
}

NOT_APPLICABLE_ALWAYS = {
    "C18": "optimality of two nested search loops for every N < 2^62 is a number-theoretic proof or an exhaustive run, not a property of the code's shape; no sound static argument in reach decides it (its one structural clause, fast_len cropping through signal slicing, is decided under C01).",
}


def built():
    d = os.path.join(HERE, "pbverif", "props")
    out = []
    for k in CHECKS:
        if os.path.exists(os.path.join(d, k.lower() + ".py")):
            out.append(k)
    return out


def main():
    b = built()
    checks = []
    for pid in b:
        tech, text, note, ref = CHECKS[pid]
        checks.append({
            "property_id": pid,
            "quick_cmd": f"./check {pid} --tier quick",
            "thorough_cmd": f"./check {pid} --tier thorough",
            "evidence_file": f"/verif/evidence/{pid}.json",
            "replay_cmd_template": f"./check {pid} --replay {{path}}",
            "engine": "pbverif",
            "level_claimed": {"category": "other", "text": "static analysis of /repo's current source (never imported or executed): " + text,
                              "design_ref": f"DESIGN.md section {ref}"},
            "level_note": note + "; python ast, networkx dominators, sympy normal forms; hand-written API/role tables in /verif/pbverif",
            "technique": "static analysis: " + tech,
        })
    na = [{"property_id": k, "reason": v} for k, v in NOT_APPLICABLE_ALWAYS.items()]
    for pid in CHECKS:
        if pid not in b:
            na.append({"property_id": pid, "reason": "check not built yet in this session (designed in DESIGN.md section 4); not claimed until its checker exists"})
    man = {
        "version": 1,
        "setup_cmd": "./setup.sh",
        "hooks": {
            "guard": "PULSARBAT_VERIF",
            "enable": "none needed: the checks are static and read /repo's source text; no instrumentation exists in /repo",
            "baseline_off_cmd": "cd /repo && /venv/bin/python -m pytest -ra -q -p no:cacheprovider --timeout=900 --continue-on-collection-errors",
            "source_commits": [],
            "add_only": True,
        },
        "engines": [{"name": "pbverif", "path": "/verif/pbverif", "serves_properties": b,
                     "kind_free_text": "repository-specific static analyser: program model (E1), CFG/dominance (E2), alias/laziness/sign domains (E3), term normal forms (E4), structural rules (E5)"}],
        "checks": checks,
        "not_applicable": sorted(na, key=lambda x: x["property_id"]),
        "notes": "All checks are static analyses over /repo/pulsarbat's source; exit 0 = all obligations discharged, 1 = VIOLATION, 2 = inconclusive/analysis error. Known findings: /verif/known_findings.json.",
    }
    with open(os.path.join(HERE, "MANIFEST.json"), "w") as fh:
        json.dump(man, fh, indent=1)
    print("claimed:", b)


if __name__ == "__main__":
    main()
