#!/usr/bin/env python3
"""Regenerates /verif/MANIFEST.json from the table below and the set of built checks."""
import json
import os

HERE = os.path.dirname(os.path.dirname(os.path.abspath(__file__)))

# id -> (technique, level text, level note, design ref)
AI = "abstract interpretation of the package's own source over a term domain (sympy terms, units as algebra, if-conversion with path facts; the library is parsed, never imported or run)"
RS = " Also rule RS: derived-state coherence dataflow (a memoised/derived attribute or functools.cached_property must be reset wherever the state it was computed from is assigned; a memoised array must not be handed out by reference; a cache computed from the own numeric value of a Quantity/ndarray subclass goes stale under inherited in-place operators) and rule RC (every model signal is also pushed through its class's own constructor chain; enumerated state must be stored as given) and rule RM (process-lifetime tables: by a backward slice over the function, every input a stored entry is computed from must be determined by the key it is stored under - incl. units, the file contents behind a path, closure variables; a functools-cached array is not handed out; a scratch array kept in such a table never becomes part of a result); attributes parked on an argument from outside its class count as derived state nobody can reset."

CHECKS = {
    "C01": (AI + " + sign domain on slice bounds + truth-table Boolean equality",
            "Decides, for every input, the time-metadata algebra of every cropping site (start_time' = start_time + clamp(start)/sample_rate with CPython's slice.indices clamp, sample_rate' = sample_rate/step, stop_time, dt, the Boolean form of contains), that a signal without start time never acquires one, the crop ledgers of fast_len and time_shift(crop=True), and that every signal-level slice bound computed by library code is non-negative. Rule NT: the same scenario evaluated with Python numbers and with NumPy scalars (numpy.int64 is not an int, numpy.float32 is not a float) gives the same outcome. The time ledger of every cropping operation (incl. incoherent dedispersion) does not depend on the unit a Quantity argument is held in. Not decided: floating-point rounding of astropy Time arithmetic. The in operator of signals and readers (__contains__) is held to the same Boolean normal form as contains()." + RS,
            "real-number semantics for formulas; API table for numpy/astropy; expected terms transcribed from the property statement", "4/C01"),
    "C02": (AI + "; small-scope exhaustive enumeration of channel counts and slice bounds",
            "Decides the channel-label formula for all alignments and both parities (every radio class built through its own constructor chain, and after assigning freq_align through the setter), band edges, and that the labels of a frequency slice, of repeated/combined slices, of a trailing-axis selection and of a Stokes component selected by name - read back through the package's own channel_freqs property - equal the selected labels of the original. The frequency metadata of a slice is never re-cast to a narrower dtype. Rule NT: the same scenario evaluated with Python numbers and with NumPy scalars (numpy.int64 is not an int, numpy.float32 is not a float) gives the same outcome. Not decided: Quantity round-off." + RS,
            "real-number semantics; sympy", "4/C02"),
    "C03": (AI + " with explicit per-element arrays (indexed Sel terms, store sets, explicit np.where masks)",
            "Decides the phase-ramp term ifft(fft(x)*exp(-2 pi i s k/N)) for scalar, Quantity and per-element array shifts (axis alignment of the shift read off the result term), NumPy and Dask branches, zero-fill coverage of the returned data for every broadcastable shift shape incl. sizes beyond every size threshold the code compares against and shift arrays containing the negative zero, crop bounds, the zero-fill extent of scalar shifts at chosen magnitudes (up to 1e5 samples with a small fraction, where a relative-tolerance snap would change it), unchanged metadata, refusal of too many shift axes. Zero-fill stores count for the returned array only if it is the stored array, a view of it, or a copy taken after the store (also on BasebandSignal inputs). Not decided: DFT accuracy." + RS,
            "API table; real-number semantics; numpy basic-index store semantics", "4/C03"),
    "C04": (AI + " with explicit per-element arrays (store sets, explicit masks)",
            "Decides the mixer term, transform pairing fft->fftshift->zeroing->ifftshift->ifft, zero-fill coverage of the returned data in bins for every broadcastable shift shape (negative-zero elements and full-bandwidth shifts of broadcast shape included), unit handling of the shift, unchanged metadata; on ten exact whole-bin witnesses the zero-fill extent is evaluated in IEEE doubles (every operation of the source rounded to nearest-even) and must be the k wrapped bins; no third-party routine may overwrite an operand that is the caller's data. Out-of-band shifts (2x, -3/2x, exactly the sample rate) return the caller's class, dtype and ledger on every return path. Not decided: value accuracy." + RS,
            "API table; real-number semantics", "4/C04"),
    "C05": (AI,
            "Decides the transfer-function term including units and the constant K (|H| = 1 and H(DM)H(-DM) = 1 derived; finite and equal to the limit at an infinite reference frequency), per-channel chirp plumbing for NumPy and Dask signals (declared dtype/shape of the delayed chirp), the filtered data term, crop start/stop terms with clamping (compared in the unsaturated and the saturated regime), start-time advance, supplied-chirp agreement (also for a chirp held on the other back end than the signal), that no deferred per-channel callable captures the loop variable by reference. Rule RF: an infinite reference frequency given as a bare float means the same as inf*u.Hz. A signal scenario dedispersed to infinite frequency. Not decided: complex64 accuracy." + RS,
            "units as positive symbols; sympy", "4/C05"),
    "C06": (AI + "; fixed-delay scenarios for the realignment",
            "Decides the delay law with units, antisymmetry/additivity, sample_delay = time_delay*rate for any DM unit, the per-channel realignment identity (symbolic delays: lo_i - crop = round(delay_i), own channel, equal lengths, in-range sources; fixed delay patterns: any slicing strategy - per channel, blocks, one slice - yields channel i over [crop+r_i, crop+r_i+N-max)), start-time advance, ledger. Rule RF: an infinite reference frequency given as a bare float means the same as inf*u.Hz. Not decided: Quantity rounding." + RS,
            "units as positive symbols; round as floor(x+1/2)", "4/C06"),
    "C07": (AI + " on a model of Phase objects; identical-argument recursion detection; record-array shape rules",
            "Decides the routing necessary for two-double results: no never-copy constructor on non-array operands, every ufunc family of the statement built by from_angles from the separate int/frac parts in operand order with the physical factor/divisor, termination, two-part correction, refinement step, returned value and out= routing of the floor-divide family also for Phase divisors, imaginary phases with an exactly-zero part, the real/imaginary flag of the result also when it is written into a supplied output Phase of the other kind, storage of both parts for operands of any broadcast shape (day_frac itself on operands that broadcast to a larger shape), refusal of arrays mixing real and imaginary elements, the real/imaginary sign table (i*i = -1); day_frac is additionally folded on ~60 concrete adversarial operand vectors (witness refutation of order-dependent or lossy accumulation, not a proof). In-place forms (r %= d: the output is an operand) read the operands' original parts; the contents of a caller's out= quotient array; the kind flag a product really stores (Python bool or numpy.bool_) sent through add/subtract. Not decided: correctness of the error-free transformations for all doubles." + RS,
            "numpy>=2 copy=False semantics; astropy API table", "4/C07"),
    "C08": (AI + " on symbolic polyco text and a predictor-table model; CFG dominance; alias analysis of the table",
            "Decides that from_polyco builds exactly the tempo polynomial (all coefficient counts, D/E exponents, reference phase split, 60*F0, domain scale), TMID precision (text or two doubles into Time), scalar/array branch agreement for any index order, derivative order and unit, range-check acceptance condition and dominance (also over the row lookup inside _get_index_and_dt), interval merging on concrete tables, that prediction methods never write the table, that the constructor hands the entries to the table in ascending TMID order whatever order they arrive in (the binary search over span ends relies on it). phasepol is evaluated on the polynomial exactly as from_polyco stores it; the functions time_at hands to the root finder look their argument up in the table. Not decided: 1e-8 accuracy of polynomial evaluation, root-finder convergence." + RS,
            "numpy.polynomial.Polynomial(domain=) semantics from the API table", "4/C08"),
    "C09": ("laziness taint analysis (forcing sinks) + " + AI + " on NumPy- and Dask-tagged signals + structural rules on graph keys and read splitting",
            "Decides that no signal method/transform forces a possibly-Dask value outside the sanctioned explicit points, that every public operation builds the same term with the same class/metadata on both back ends and stays Dask-backed, declared dtype/shape of delayed results, that a hand-written Dask token or an explicit name= of a delayed bound method contains the object's identity or state, that a lazy read wraps the same single read as the eager one, that no deferred callable captures a loop variable by reference and no mutable default argument is mutated, that the data parameter of every signal constructor is not forced, that Dask arrays created inside FFT-based transforms are one chunk along the transformed axis, that a Dask-backed out=/in-place target ends up as the NumPy-backed one would (a refused multi-output call leaves every target untouched), that Dask data of unknown extent is accepted by the constructors. Lazy-read declarations (dtype, shape) against what the wrapped read returns; ufunc operands and options are possibly lazy in the taint analysis. Not decided: scheduler independence, chunk-layout acceptance, bitwise value equality. A Dask-backed out= target of shape (N, 1) must refuse a (N, 4) result like NumPy does." + RS,
            "API table of dispatching vs forcing numpy functions, re-validated against installed dask/numpy by introspection", "4/C09"),
    "C10": (AI + " reading path facts at the join",
            "Decides (also for pieces with zero samples in time, joined along frequency) that for every piece the sample-rate, channel-bandwidth, type, time-contiguity (cumulative), equal-start and equal/adjacent-label conditions are facts of the accepting path, the result's start time, data term, labels read back and override set, definite refusals. Rule NT: the same scenario evaluated with Python numbers and with NumPy scalars (numpy.int64 is not an int, numpy.float32 is not a float) gives the same outcome. Not decided: isclose tolerances." + RS,
            "astropy isclose semantics", "4/C10"),
    "C11": (AI + " against a stream-reader/file model + effect scans + alias analysis of memoised results",
            "Decides bounds facts, operator.index flow, seek/read arguments, start time = time_at(offset), dtype/length, data term (conjugation, transposition, channel flip), reader state identical before/after and repeated read identical, Dask read = eager read (single read per request, declared dtype/shape), time_at/offset_at inverses also for relative times held in minutes or days (rounding in the held unit), no reading method writes reader state, tokeniser coverage, memoised results never written, factor-2 agreement for real data, real_to_complex against its definition on reader-shaped input (2n samples along axis 0, n = 1 included). Sideband flags as Boolean mask, as a mask with every flag set, and as 0/1 integers. Not decided: decoding inside baseband, real concurrency." + RS,
            "baseband API modelled by the stream-reader model", "4/C11"),
    "C12": (AI,
            "Decides normalisation of t in all three forms (scale-aware Time difference), rejection guards, that shift, new start and final slice compose to start_time + t/sample_rate with exactly n samples (also for integer-dtype real data: no truncating cast), integer t takes the plain slice. Rule NT: the same scenario evaluated with Python numbers and with NumPy scalars (numpy.int64 is not an int, numpy.float32 is not a float) gives the same outcome. Not decided: interpolation accuracy; floating-point round-off of the bounds test for durations." + RS,
            "real-number semantics", "4/C12"),
    "C13": (AI + " over complex symbols with explicit polarisation components",
            "Decides that a refused basis label leaves the old one, and all conversion and Stokes identities per branch (definitions of L/R, inverse, power, basis independence, I^2=Q^2+U^2+V^2, I=sum of intensities, component access by name on the Stokes axis also with trailing dimensions), whichever formulation (explicit formulas, matrix product, tensordot) the source uses. Both complex widths; the identity path returns a new object like the converting path. Not decided: float rounding. The attributes stokesI..stokesV are evaluated next to s[name] (same class, labels, data); a memo fed from the sample buffer through an in-package __getitem__ is reported by rule RS." + RS,
            "sympy", "4/C13"),
    "C14": ("inter-procedural may-alias (ownership) analysis with mutation sinks, function summaries and memoised-result roots",
            "Decides, for every input, that no library statement writes to anything that may alias an argument's object, buffer or metadata, or an object kept by a memo table (private derived attributes of self are sanctioned and handed to rule RS; overwrite_* options of third-party routines are sinks; __array__(copy=True) returns fresh storage; stores into the elements of an explicit out= tuple are the sanctioned mutation)." + RS,
            "view/copy table for numpy/astropy/dask; third-party code does not write its inputs unless listed", "4/C14"),
    "C15": (AI + " on the Phase model; IEEE-double evaluation of association-preserving terms on near-tie vectors; constant folding of concrete doubles for renderings",
            "Decides that comparisons and argmin/argmax difference the parts before adding (and select the exact extremum in doubles), lexsort keys, that min/max/sort select by the flat index in logical order and that the index producers flatten in logical C order, that the per-axis indices select along their own axis for every axis number (0 included), decimal parsing of 600+ spellings exactly and of 23 spellings in IEEE doubles (nothing raises, parts within 2^-52), refusal of 20 non-decimal strings, from_string kind consistency (whole-number imaginary strings included), to_string and fixed-point format() renderings of dyadic and sub-resolution values (sign of values in (-1, 0) included) and the round trip. Fixed-point format of imaginary phases shows the requested decimals; a Phase re-created from plain array data is given its real/imaginary kind. Not decided: renderings of arbitrary non-dyadic fractions. Each comparison ufunc is also evaluated in its out= form (Phase, Phase, out=mask) under the same no-fallback obligation." + RS,
            "numpy.lexsort key order; CPython/NumPy shortest-repr of doubles", "4/C15"),
    "C16": (AI + " of constructors and setters on tables of valid/invalid arguments + who-may-write tables + signature agreement",
            "Decides that every metadata setter validates before storing and converts failures to ValueError (also on both arms of undecided tests, on even and odd channel counts), constructor shape/dtype contracts incl. byte order, baseband chan_bw tied to sample_rate at creation and by every library operation evaluated, like()/container helpers reproduce every state attribute, private fields written only by their setter/constructor (or re-validated through the constructor of the target's own class), a Dask-backed out=/in-place target keeps a dtype of its class, no pickling hooks." + RS,
            "astropy validators behave as documented; numpy casting table by introspection", "4/C16"),
    "C17": (AI + " of __array_ufunc__ with an abstract ufunc + protocol signature rules",
            "Decides refusal of non-call methods and matmul before unwrapping, that signals among inputs/outs are replaced by their data and every other operand reaches the ufunc untouched (Python scalars stay scalars, Quantities keep their class), single call, kwargs forwarded (also together with out=), the promoted result dtype kept by the wrapper, rewrap in the dispatching signal's class or return of the given out object, Dask-backed out= targets left as NumPy would leave them (own dtype, or TypeError), __array__ protocol incl. copy=True returning a new array. An out= target of another signal class than the operand is validated by its own class. Not decided: per-ufunc values. Plans with operands of different signal classes (every signal among the inputs is unwrapped whichever class dispatches) and a Dask out= target whose sample axis is narrower than the result (refused with ValueError)." + RS,
            "NumPy __array_ufunc__/__array__ protocol", "4/C17"),
    "C19": (AI + " on explicit arrays of symbols with exact DFT sums",
            "Decides the definition for N = 1..9 (16 thorough) and ranks 1-3 on every axis: out[m] = (-1)^m analytic(x)[2m] with the one-sided weights, (-1)^m Re(out[m]) = x[2m], ceil(N/2) samples, other axes in place (also when empty), whatever transform pair is used; the symbolic-N result term, a double-precision mixer ramp whatever the data's precision, dtype rule, refusals, the factor-2 agreement with the readers, no overwrite_* option on caller data, no process-wide hook (scipy.fft backend registration, monkey-patching) installed by the package. The dtype rule on the main path for narrow and integer dtypes. Not decided: FFT round-off; N beyond the enumerated range is covered by the symbolic term rule only for the fft/ifft formulation." + RS,
            "complex-number semantics; closed-form constants compared at 40 digits", "4/C19"),
    "C20": (AI + " of the module __getattr__ dispatcher + introspection of installed scipy/dask + exact small-instance STFT/ISTFT",
            "Decides the fourteen-name table, AttributeError for every other name (all other public names of the installed scipy.fft included), that each dispatcher applies the same-named scipy transform (NumPy) resp. fft_wrap of it (Dask) with arguments unchanged and a declared dtype equal to scipy's for eleven input dtypes; STFT definition, ISTFT(STFT) = id on explicit arrays, sample-rate/start-time/label identities for both parities and all alignments (single- and dual-polarisation input), no overwrite_* option on caller data, no process-wide hook into scipy.fft, and that neither transform writes into the signal it is given (in-place operators through reshape/swapaxes views). Not decided: numerical equality with the reference transform." + RS,
            "scipy.fft / dask.array.fft introspection", "4/C20"),
}

NOT_APPLICABLE_ALWAYS = {
    "C18": "optimality of two nested search loops for every N < 2^62 is a number-theoretic proof or an exhaustive run, not a property of the code's shape; no sound static argument in reach decides it (its one structural clause, fast_len cropping through signal slicing, is decided under C01).",
}


def built():
    d = os.path.join(HERE, "pbverif", "props")
    out = []
    for k in CHECKS:
        if os.path.exists(os.path.join(d, k.lower() + ".py")):
            out.append(k)
    return out


def main():
    b = built()
    checks = []
    for pid in b:
        tech, text, note, ref = CHECKS[pid]
        checks.append({
            "property_id": pid,
            "quick_cmd": f"./check {pid} --tier quick",
            "thorough_cmd": f"./check {pid} --tier thorough",
            "evidence_file": f"/verif/evidence/{pid}.json",
            "replay_cmd_template": f"./check {pid} --replay {{path}}",
            "engine": "pbverif",
            "level_claimed": {"category": "other", "text": "static analysis of /repo's current source (never imported or executed): " + text,
                              "design_ref": f"DESIGN.md section {ref}"},
            "level_note": note + "; python ast, networkx dominators, sympy normal forms; hand-written API/role tables in /verif/pbverif",
            "technique": "static analysis: " + tech,
        })
    na = [{"property_id": k, "reason": v} for k, v in NOT_APPLICABLE_ALWAYS.items()]
    for pid in CHECKS:
        if pid not in b:
            na.append({"property_id": pid, "reason": "check not built yet in this session (designed in DESIGN.md section 4); not claimed until its checker exists"})
    man = {
        "version": 1,
        "setup_cmd": "./setup.sh",
        "hooks": {
            "guard": "PULSARBAT_VERIF",
            "enable": "none needed: the checks are static and read /repo's source text; no instrumentation exists in /repo",
            "baseline_off_cmd": "cd /repo && /venv/bin/python -m pytest -ra -q -p no:cacheprovider --timeout=900 --continue-on-collection-errors",
            "source_commits": [],
            "add_only": True,
        },
        "engines": [{"name": "pbverif", "path": "/verif/pbverif", "serves_properties": b,
                     "kind_free_text": "repository-specific static analyser: program model (E1), CFG/dominance (E2), alias/laziness/sign domains (E3), term normal forms (E4), structural rules (E5)"}],
        "checks": checks,
        "not_applicable": sorted(na, key=lambda x: x["property_id"]),
        "notes": "All checks are static analyses over /repo/pulsarbat's source; exit 0 = all obligations discharged, 1 = VIOLATION, 2 = inconclusive/analysis error. Known findings: /verif/known_findings.json.",
    }
    with open(os.path.join(HERE, "MANIFEST.json"), "w") as fh:
        json.dump(man, fh, indent=1)
    print("claimed:", b)


if __name__ == "__main__":
    main()
