#!/bin/bash
# Offline set-up: install the pure-python analysis dependencies into /verif/.deps (git-ignored).
HERE="$(cd "$(dirname "${BASH_SOURCE[0]}")" && pwd)"
if [ -d "$HERE/.deps/sympy" ] && [ -d "$HERE/.deps/networkx" ] && [ -d "$HERE/.deps/mpmath" ]; then
  echo "deps present"; exit 0
fi
mkdir -p "$HERE/.deps"
PIP_NO_INDEX=1 /venv/bin/python -m pip install -q --no-index --find-links /opt/veriftools/wheels \
   --target "$HERE/.deps" sympy networkx mpmath 2>&1 | grep -v -i warning
[ -d "$HERE/.deps/sympy" ] && [ -d "$HERE/.deps/networkx" ] && echo "deps installed"
